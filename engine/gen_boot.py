"""Generates /verif/harness/d_boot/src/gen/* from /repo's working tree."""
import os, sys
sys.path.insert(0, os.path.dirname(__file__))
from transplant import *

DST = os.path.join(os.path.dirname(os.path.dirname(os.path.abspath(__file__))), "harness", *"d_boot/src/gen".split("/"))
ROOTS = {"std": "crate::shim::std", "atomic_write_file": "crate::shim::atomic_write_file"}


def generate():
    meta = []
    meta.append(transplant_file(
        "ant-bootstrap/src/cache_store.rs", f"{DST}/cache_store.rs", ROOTS,
        append='#[path = "../h_cache.rs"]\npub mod harness;\n',
        require=["pub fn perform_cleanup(&mut self, cfg: &BootstrapCacheConfig)", "pub fn try_remove_oldest_peers", "pub fn sync_and_flush_to_disk", "pub fn load_cache_data", "pub fn add_addr"]))
    src, m = extract_items("ant-bootstrap/src/lib.rs", [
        ("struct", "BootstrapAddresses"), ("impl", "BootstrapAddresses"), ("struct", "BootstrapAddr"), ("impl", "BootstrapAddr"),
        ("fn", "craft_valid_multiaddr"), ("fn", "craft_valid_multiaddr_from_str"), ("fn", "multiaddr_get_peer_id")])
    meta.append(m)
    write_if_changed(f"{DST}/lib_items.rs", "// GENERATED from ant-bootstrap/src/lib.rs items -- do not edit\nuse libp2p::{multiaddr::Protocol, Multiaddr, PeerId};\nuse serde::{Deserialize, Serialize};\nuse crate::shim::std::time::SystemTime;\n\n" + src + "\n")
    src, m = extract_items("ant-bootstrap/src/config.rs", [
        ("const", "ADDR_EXPIRY_DURATION"), ("const", "MAX_PEERS"), ("const", "MAX_ADDRS_PER_PEER"),
        ("const", "MIN_BOOTSTRAP_CACHE_SAVE_INTERVAL"), ("const", "MAX_BOOTSTRAP_CACHE_SAVE_INTERVAL"),
        ("struct", "BootstrapCacheConfig"), ("impl", "BootstrapCacheConfig")])
    meta.append(m)
    write_if_changed(f"{DST}/config_items.rs", "// GENERATED from ant-bootstrap/src/config.rs items -- do not edit\nuse crate::shim::std::time::Duration;\nuse std::path::{Path, PathBuf};\nuse crate::Result;\nfn default_cache_path() -> Result<PathBuf> { Ok(PathBuf::from(\"/cache/default_bootstrap_cache.json\")) }\n\n" + src.replace("const ADDR_EXPIRY_DURATION", "pub const ADDR_EXPIRY_DURATION") + "\n")
    return {"transplanted": meta}


if __name__ == "__main__":
    import json
    try:
        print(json.dumps(generate(), indent=1)[:200])
    except EncodingError as ex:
        print("ENCODING-ERROR", ex)
        sys.exit(2)
