"""Generates /verif/harness/d_client/src/gen/* from /repo's working tree (C14: data-map level packing / fetching)."""
import os, re, sys
sys.path.insert(0, os.path.dirname(__file__))
from transplant import *

DST = os.path.join(os.path.dirname(os.path.dirname(os.path.abspath(__file__))), "harness", *"d_client/src/gen".split("/"))


def generate():
    meta = []
    # ant-protocol/src/storage/chunks.rs, whole file: Chunk with its real Serialize/Deserialize impls and content address;
    # the one thing changed is the *type* of serialised_size(): a size that compares with `*MAX_CHUNK_SIZE` through the solver
    meta.append(transplant_file(
        "ant-protocol/src/storage/chunks.rs", f"{DST}/chunks.rs",
        {"super": "::ant_protocol::storage", "crate": "::ant_protocol"},
        regex_subs=[(r"pub fn serialised_size\(&self\) -> usize \{\s*self\.value\.len\(\)\s*\}",
                     "pub fn serialised_size(&self) -> crate::shim::Sz {\n        crate::shim::Sz(self.value.len())\n    }", 1)],
        require=["impl Serialize for Chunk", "impl<'de> Deserialize<'de> for Chunk", "XorName::from_content"]))
    # autonomi/src/self_encryption.rs, whole file, unchanged: encrypt / pack_data_map / wrap_data_map / DataMapLevel.
    # self_encryption (external crate) is the ideal model of shim::self_encryption; `*MAX_CHUNK_SIZE` is a native usize
    # *placeholder* that the size type recognises in comparisons and replaces by the symbolic maximum.
    meta.append(transplant_file(
        "autonomi/src/self_encryption.rs", f"{DST}/self_encryption.rs",
        {"self_encryption": "crate::shim::self_encryption", "rayon": "crate::shim::rayon", "ant_protocol": "crate::shim::ant_protocol"},
        require=["pub fn encrypt(", "fn pack_data_map(", "fn wrap_data_map(", "enum DataMapLevel"]))
    # the read side: items of client/utils.rs and client/data/{mod,public}.rs
    u, mu = extract_items("autonomi/src/client/utils.rs", [("fn", "fetch_from_data_map"), ("fn", "fetch_from_data_map_chunk")])
    # process_tasks_with_max_concurrency is a free function in utils.rs, the others are methods of Client
    f, mf = extract_items("autonomi/src/client/utils.rs", [("fn", "process_tasks_with_max_concurrency")])
    p, mp = extract_items("autonomi/src/client/data/public.rs", [("fn", "data_get_public"), ("fn", "chunk_get")])
    g, mg = extract_items("autonomi/src/client/data/mod.rs", [("enum", "GetError")])
    meta += [mu, mf, mp, mg]
    text = ("// GENERATED from autonomi/src/client/{utils.rs,data/mod.rs,data/public.rs} items -- do not edit\n"
            "use crate::shim::ant_networking::{GetRecordCfg, NetworkError};\n"
            "use crate::shim::ant_protocol::storage::{try_deserialize_record, Chunk, ChunkAddress, RecordHeader, RecordKind};\n"
            "use crate::shim::ant_protocol::{self as ant_protocol, NetworkAddress};\n"
            "use crate::shim::client::{Client, ChunkAddr, DataAddr, CHUNK_DOWNLOAD_BATCH_SIZE};\n"
            "use crate::shim::self_encryption::{decrypt_full_set, DataMap, EncryptedChunk};\n"
            "use crate::self_encryption::DataMapLevel;\n"
            "use bytes::Bytes;\nuse futures::stream::{FuturesUnordered, StreamExt};\n#[allow(unused_imports)]\nuse futures::{FutureExt as _, TryFutureExt as _, TryStreamExt as _};\nuse libp2p::kad::Quorum;\n"
            "#[allow(unused_imports)]\nuse std::collections::{BTreeMap, BTreeSet, HashMap, HashSet, VecDeque};\nuse std::future::Future;\nuse xor_name::XorName;\n"
            "#[allow(unused_imports)]\nuse libp2p::kad::{Record, RecordKey};\n\n"
            + g + "\n\nimpl Client {\n" + u + "\n\n" + p + "\n}\n\n" + f + "\n"
            + take_free_helpers()
            + "\n#[path = \"../h_data.rs\"]\npub mod harness;\n")
    write_if_changed(f"{DST}/data_items.rs", text)
    return {"transplanted": meta}


if __name__ == "__main__":
    import json
    try:
        print(json.dumps(generate(), indent=1)[:600])
    except EncodingError as ex:
        print("ENCODING-ERROR", ex)
        sys.exit(2)
