"""Generates /verif/harness/d_evm/src/gen/* from /repo's working tree."""
import os, sys
sys.path.insert(0, os.path.dirname(__file__))
from transplant import *

DST = os.path.join(os.path.dirname(os.path.dirname(os.path.abspath(__file__))), "harness", *"d_evm/src/gen".split("/"))


def generate():
    meta = []
    meta.append(transplant_file(
        "ant-evm/src/amount.rs", f"{DST}/amount.rs", {"evmlib": "crate::shim::evmlib"},
        append='#[path = "../h_amount.rs"]\npub mod harness;\n',
        require=["impl Display for AttoTokens", "impl FromStr for AttoTokens"]))
    return {"transplanted": meta}


if __name__ == "__main__":
    import json
    print(json.dumps(generate(), indent=1))
