"""Generates /verif/harness/d_kad/src/gen/* : quorum accumulation items of ant-networking."""
import os, sys
sys.path.insert(0, os.path.dirname(__file__))
from transplant import *

DST = os.path.join(os.path.dirname(os.path.dirname(os.path.abspath(__file__))), "harness", *"d_kad/src/gen".split("/"))


def generate():
    meta = []
    a, m = extract_items("ant-networking/src/event/kad.rs", [("fn", "accumulate_get_record_found"), ("fn", "handle_get_record_finished"),
                                                              ("fn", "handle_get_record_error"), ("fn", "send_record_after_checking_target")])
    meta.append(m)
    cfg, m = extract_items("ant-networking/src/driver.rs", [("struct", "GetRecordCfg"), ("impl", "GetRecordCfg")])
    meta.append(m)
    q, m = extract_items("ant-networking/src/lib.rs", [("fn", "close_group_majority"), ("fn", "get_quorum_value")])
    meta.append(m)
    arm, m = extract_match_arm("ant-networking/src/cmd.rs", r"NetworkSwarmCmd::GetNetworkRecord \{ key, sender, cfg \} => \{\n\s+cmd_string")
    meta.append(m)
    text = ("// GENERATED from ant-networking/src/{event/kad.rs,driver.rs,lib.rs,cmd.rs} items -- do not edit\n"
            "use crate::shim::*;\nuse crate::shim::kad;\nuse crate::shim::collections::{hash_map::Entry, BTreeSet, HashSet};\nuse tokio::sync::oneshot;\n\n"
            + q + "\n\n" + cfg + "\n\nimpl SwarmDriver {\n" + a + "\n\n"
            "    pub(crate) fn arm_get_network_record(&mut self, key: RecordKey, sender: oneshot::Sender<std::result::Result<Record, GetRecordError>>, cfg: GetRecordCfg) -> Result<()> {\n"
            "        let cmd_string: &str;\n" + arm + "\n        let _ = cmd_string;\n        Ok(())\n    }\n}\n\n#[path = \"../h_kad.rs\"]\npub mod harness;\n")
    write_if_changed(f"{DST}/kad_items.rs", text)
    return {"transplanted": meta}


if __name__ == "__main__":
    import json
    try:
        print(json.dumps(generate(), indent=1)[:200])
    except EncodingError as ex:
        print("ENCODING-ERROR", ex)
        sys.exit(2)
