"""Generates /verif/harness/k_misc/src/gen/* : items transplanted for Kani harnesses."""
import os, sys
sys.path.insert(0, os.path.dirname(__file__))
from transplant import *

DST = os.path.join(os.path.dirname(os.path.dirname(os.path.abspath(__file__))), "harness", *"k_misc/src/gen".split("/"))
H = os.path.join(os.path.dirname(os.path.dirname(os.path.abspath(__file__))), "harness", *"k_misc/src".split("/"))


def generate():
    meta = []
    # ---- ports ----
    a, m1 = extract_items("ant-node-manager/src/add_services/config.rs", [("enum", "PortRange"), ("impl", "PortRange")])
    b, m2 = extract_items("ant-node-manager/src/helpers.rs", [("fn", "increment_port_option"), ("fn", "check_port_availability")])
    meta += [m1, m2]
    write_if_changed(f"{DST}/ports.rs", "// GENERATED -- do not edit\nuse crate::shim::{NodeServiceData, Result};\nuse crate::{eyre, error};\nuse std::str::FromStr;\n\n"
                     + a + "\n\n" + b + "\n\n#[path = \"../h_ports.rs\"]\nmod harness;\n")
    # ---- wallet encryption ----
    c, m = extract_items("ant-cli/src/wallet/encryption.rs", [("const", "SALT_LENGTH"), ("const", "NONCE_LENGTH"), ("static", "ITERATIONS"),
                                                               ("struct", "NonceSeq"), ("impl", "NonceSequence for NonceSeq"), ("fn", "decrypt_private_key")])
    meta.append(m)
    write_if_changed(f"{DST}/wallet_encryption.rs", "// GENERATED -- do not edit\nuse crate::shim::ring;\nuse crate::shim::ring::aead::{BoundKey, Nonce, NonceSequence};\nuse crate::shim::ring::error::Unspecified;\nuse crate::shim::wallet_error::Error;\nuse std::num::NonZeroU32;\nuse std::sync::LazyLock;\n\n"
                     + c + "\n\n#[path = \"../h_wallet.rs\"]\nmod harness;\n")
    # ---- bootstrap addr counters ----
    d, m = extract_items("ant-bootstrap/src/lib.rs", [("fn", "update_status"), ("fn", "is_reliable"), ("fn", "sync", None, "self.last_seen == other.last_seen"), ("fn", "failure_rate")])
    meta.append(m)
    write_if_changed(f"{DST}/bootstrap_addr.rs", "// GENERATED -- do not edit\nuse crate::shim::SystemTime;\nuse crate::{trace, debug};\n\n#[derive(Debug, Clone)]\npub struct BootstrapAddr {\n    pub addr: u8,\n    pub success_count: u32,\n    pub failure_count: u32,\n    pub last_seen: SystemTime,\n}\n\nimpl BootstrapAddr {\n"
                     + d + "\n}\n\n#[path = \"../h_bootstrap_addr.rs\"]\nmod harness;\n")
    # ---- client address helpers ----
    e, m = extract_items("autonomi/src/client/address.rs", [("fn", "str_to_addr"), ("fn", "addr_to_str")])
    meta.append(m)
    write_if_changed(f"{DST}/client_addr.rs", "// GENERATED -- do not edit\nuse crate::error;\n#[derive(Debug, Clone, Copy, PartialEq, Eq)]\npub struct XorName(pub [u8; 32]);\nimpl AsRef<[u8]> for XorName { fn as_ref(&self) -> &[u8] { &self.0 } }\n#[derive(Debug)]\npub enum DataError { InvalidHexString, InvalidXorName }\n\n"
                     + e + "\n\n#[path = \"../h_client_addr.rs\"]\nmod harness;\n")
    # ---- quorum value (C05) ----
    f, m = extract_items("ant-networking/src/lib.rs", [("fn", "get_quorum_value")])
    g, m2 = extract_items("ant-protocol/src/lib.rs", [("const", "CLOSE_GROUP_SIZE")])
    h2, m3 = extract_items("ant-networking/src/lib.rs", [("fn", "close_group_majority")])
    meta += [m, m2, m3]
    write_if_changed(f"{DST}/quorum.rs", "// GENERATED -- do not edit\nuse std::num::NonZeroUsize;\n/// same shape as libp2p::kad::Quorum\n#[derive(Debug, Clone, Copy, PartialEq, Eq)]\npub enum Quorum { One, Majority, All, N(NonZeroUsize) }\n\n"
                     + g + "\n\n" + h2 + "\n\n" + f + "\n\n#[path = \"../h_quorum.rs\"]\nmod harness;\n")
    return {"transplanted": meta}


if __name__ == "__main__":
    import json
    try:
        print(json.dumps(generate(), indent=1))
    except EncodingError as ex:
        print("ENCODING-ERROR", ex)
        sys.exit(2)
