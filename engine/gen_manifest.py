"""Regenerates /verif/MANIFEST.json from props_table + the N/A table below."""
import json, os, sys
sys.path.insert(0, os.path.dirname(os.path.abspath(__file__)))
from props_table import PROPS
from manifest_text import LEVEL_TEXT, NOT_APPLICABLE, ENGINES

props = [json.loads(l) for l in open('/verif/properties.jsonl')]
m = {
    "version": 1,
    "setup_cmd": "./setup.sh",
    "hooks": {"guard": "verif_hooks",
              "enable": "none needed: engines D and K read /repo's sources unchanged (transplant / path dependencies); no hook commits exist in /repo",
              "baseline_off_cmd": "cd /repo && cargo nextest run --workspace --no-fail-fast --tool-config-file pb:/w/lib/nextest.toml --profile pb --test-threads 8 --offline",
              "source_commits": [], "add_only": True},
    "engines": ENGINES(PROPS),
    "checks": [],
    "not_applicable": [],
    "notes": "All checks: ./check <id> --tier quick|thorough. Exit 0 = every obligation discharged within the stated bounds (KNOWN-FINDING lines for listed defects); exit 1 + VIOLATION line = confirmed counterexample not listed in known_findings.json; exit 2 = inconclusive (never reported as success).",
}
for p in props:
    pid = p["id"]
    if pid in PROPS:
        lt = LEVEL_TEXT[pid]
        m["checks"].append({
            "property_id": pid,
            "quick_cmd": f"./check {pid} --tier quick",
            "thorough_cmd": f"./check {pid} --tier thorough",
            "evidence_file": f"/verif/evidence/{pid}.json",
            "replay_cmd_template": f"./check {pid} --replay {{path}}",
            "engine": lt["engine"],
            "level_claimed": {"category": "model_checking", "text": lt["text"], "design_ref": (f"DESIGN.md §4 {pid}" if pid != "C14" else "DESIGN.md I.4 row C14 and 'C14 is claimed in a reduced form' (the plan in Part II had it as not applicable)")},
            "level_note": lt["note"],
            "technique": lt["technique"],
        })
    else:
        m["not_applicable"].append({"property_id": pid, "reason": NOT_APPLICABLE.get(pid, "check not yet built in this revision (see DESIGN.md for the plan)")})
json.dump(m, open('/verif/MANIFEST.json', 'w'), indent=1)
print("claimed:", [c["property_id"] for c in m["checks"]])
