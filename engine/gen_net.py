"""Generates /verif/harness/d_net/src/gen/* from /repo's working tree."""
import os, re, sys
sys.path.insert(0, os.path.dirname(__file__))
from transplant import *

DST = os.path.join(os.path.dirname(os.path.dirname(os.path.abspath(__file__))), "harness", *"d_net/src/gen".split("/"))
ROOTS = {
    "libp2p": "crate::shim::libp2p",
    "ant_protocol": "crate::shim::ant_protocol",
    "ant_evm": "crate::shim::ant_evm",
    "std": "crate::shim::std",
    "tokio": "crate::shim::tokio",
    "walkdir": "crate::shim::walkdir",
    "rayon": "crate::shim::rayon",
}


def generate():
    meta = []
    meta.append(transplant_file(
        "ant-networking/src/record_store.rs", f"{DST}/record_store.rs", ROOTS,
        subs=[("#![allow(clippy::mutable_key_type)]", "", 1)],
        # is_file() is answered by the in-memory file system, on a real &Path (pattern-level, any number of sites)
        regex_subs=[(r"\.is_file\(\)", ".model_is_file()", 0)],
        append='#[allow(unused_imports)]\nuse crate::shim::walkdir::ModelIsFile as _;\n#[path = "../h_store.rs"]\npub mod harness;\n',
        require=["fn put_verified", "fn mark_as_stored", "fn prune_records_if_needed",
                 "fn cleanup_irrelevant_records", "fn update_records_from_an_existing_store"]))
    meta.append(transplant_file(
        "ant-networking/src/record_store_api.rs", f"{DST}/record_store_api.rs", ROOTS,
        subs=[("#![allow(clippy::mutable_key_type)]", "", 1)]))
    meta.append(transplant_file(
        "ant-networking/src/replication_fetcher.rs", f"{DST}/replication_fetcher.rs", ROOTS,
        subs=[("#![allow(clippy::mutable_key_type)]", "", 1)],
        append='#[path = "../h_fetcher.rs"]\npub mod harness;\n',
        require=["fn add_keys", "fn next_keys_to_fetch", "fn prune_expired_keys_and_slow_nodes"]))
    # items
    src, m = extract_items("ant-networking/src/driver.rs", [("const", "MAX_PACKET_SIZE")])
    write_if_changed(f"{DST}/driver_items.rs", "// GENERATED\n" + src + "\n")
    meta.append(m)
    src, m = extract_items("ant-networking/src/lib.rs", [("fn", "send_local_swarm_cmd", "swarm_cmd_sender")])
    write_if_changed(f"{DST}/lib_items.rs",
                     "// GENERATED\nuse crate::shim::tokio::sync::mpsc::Sender;\nuse crate::cmd::LocalSwarmCmd;\nuse crate::target_arch::spawn;\n" + src + "\n")
    meta.append(m)
    # cmd.rs arms
    arms = [
        ("arm_put_local_record", r"LocalSwarmCmd::PutLocalRecord \{ record \} => \{\n\s+cmd_string", "record: Record"),
        ("arm_add_local_record_as_stored", r"LocalSwarmCmd::AddLocalRecordAsStored \{ key, record_type \} => \{\n\s+info!", "key: RecordKey, record_type: RecordType"),
        ("arm_remove_failed_local_record", r"LocalSwarmCmd::RemoveFailedLocalRecord \{ key \} => \{\n\s+info!", "key: RecordKey"),
        ("arm_fetch_completed", r"LocalSwarmCmd::FetchCompleted\(\(key, record_type\)\) => \{\n\s+info!", "key: RecordKey, record_type: RecordType"),
        ("arm_payment_received", r"LocalSwarmCmd::PaymentReceived => \{\n\s+cmd_string", ""),
        ("arm_trigger_irrelevant_record_cleanup", r"LocalSwarmCmd::TriggerIrrelevantRecordCleanup => \{\n\s+cmd_string", ""),
    ]
    out = ["// GENERATED from ant-networking/src/cmd.rs match arms -- do not edit",
           "use crate::driver_model::SwarmDriver;",
           "use crate::error::NetworkError;",
           "use crate::event::{NetworkEvent, TerminateNodeReason};",
           "use crate::shim::libp2p::kad::{store::Error as StoreError, store::RecordStore, Record, RecordKey};",
           "use crate::shim::ant_protocol::{storage::{RecordHeader, RecordKind, RecordType}, NetworkAddress, PrettyPrintRecordKey};",
           "use crate::target_arch::{spawn, Instant};",
           "use xor_name::XorName;",
           ""]
    c, m = extract_items("ant-networking/src/cmd.rs", [("const", "MAX_CONTINUOUS_HDD_WRITE_ERROR")])
    out.append(c)
    meta.append(m)
    out.append("impl SwarmDriver {")
    se, m = extract_items("ant-networking/src/driver.rs", [("fn", "send_event")])
    out.append(se)
    meta.append(m)
    for name, pat, args in arms:
        body, m = extract_match_arm("ant-networking/src/cmd.rs", pat)
        meta.append(m)
        sig = f"    pub(crate) fn {name}(&mut self{', ' if args else ''}{args}) -> Result<(), NetworkError> {{"
        out.append(sig)
        out.append("        let start = Instant::now();\n        let mut cmd_string: &str;")
        out.append(body)
        out.append("        let _ = (cmd_string, start);\n        Ok(())\n    }")
        if m.get("helper_methods"):
            out.append(m["helper_methods"])
    out.append("}")
    write_if_changed(f"{DST}/cmd_arms.rs", "\n".join(out) + "\n")
    # driver functions (C09 a/b, C11 closeness decisions)
    out = ["// GENERATED from ant-networking/src/{cmd,driver,event/request_response}.rs items -- do not edit",
           "use crate::driver_model::SwarmDriver;",
           "use crate::error::NetworkError;",
           "use crate::event::NetworkEvent;",
           "use crate::cmd::NetworkSwarmCmd;",
           "use crate::shim::libp2p::{kad::K_VALUE, PeerId};",
           "use crate::shim::ant_protocol::{convert_distance_to_u256, messages::{Cmd, Request}, storage::RecordType, NetworkAddress, CLOSE_GROUP_SIZE};",
           "use crate::shim::ant_evm::U256;",
           "use crate::target_arch::{spawn, Instant};",
           "use crate::shim::tokio::time::Duration;",
           "type Result<T, E = NetworkError> = std::result::Result<T, E>;",
           ""]
    c, m = extract_items("ant-networking/src/cmd.rs", [("const", "REPLICATION_TIMEOUT"), ("const", "MIN_REPLICATION_INTERVAL_S"), ("fn", "get_peers_in_range")])
    out.append(c.replace("\nfn get_peers_in_range", "\npub(crate) fn get_peers_in_range"))
    meta.append(m)
    out.append("impl SwarmDriver {")
    c, m = extract_items("ant-networking/src/cmd.rs", [("fn", "try_interval_replication"), ("fn", "get_replicate_candidates")])
    out.append(c.replace("fn try_interval_replication", "pub(crate) fn try_interval_replication"))
    meta.append(m)
    c, m = extract_items("ant-networking/src/driver.rs", [("fn", "get_closest_k_value_local_peers"), ("fn", "queue_network_swarm_cmd")])
    out.append(c)
    meta.append(m)
    c, m = extract_items("ant-networking/src/event/request_response.rs", [("fn", "add_keys_to_replication_fetcher")])
    out.append(c.replace("fn add_keys_to_replication_fetcher", "pub(crate) fn add_keys_to_replication_fetcher"))
    meta.append(m)
    out.append("}")
    write_if_changed(f"{DST}/driver_fns.rs", "\n".join(out) + "\n")
    # the distance-to-integer glue (C11 ii): the real convert_distance_to_u256 prints the Distance with {:?}, strips
    # "Distance(" and ")" and parses the rest; Debug of the shim Distance prints what libp2p's prints (`Distance(<decimal>)`,
    # the decimal text of a symbolic value being a placeholder number that stands for its term), the shim parser maps the
    # text back. One pattern-level substitution: the associated constant U256::ZERO is the function zero() of the shim type.
    c, m = extract_items("ant-protocol/src/lib.rs", [("fn", "convert_distance_to_u256")])
    c = re.sub(r"\bU256::ZERO\b", "U256::zero()", c)
    meta.append(m)
    write_if_changed(f"{DST}/distance_glue.rs",
                     "// GENERATED from ant-protocol/src/lib.rs item -- do not edit\n"
                     "use crate::shim::{Distance, U256};\nuse std::str::FromStr;\n\n" + c + "\n")
    # closest-peer selection items (C11 iii)
    out = ["// GENERATED from ant-networking/src/lib.rs and ant-node/src/node.rs items -- do not edit",
           "use crate::error::NetworkError;",
           "use crate::shim::libp2p::{kad::{KBucketDistance, KBucketKey}, Multiaddr, PeerId};",
           "use crate::shim::ant_protocol::{convert_distance_to_u256, NetworkAddress, CLOSE_GROUP_SIZE};",
           "use crate::shim::ant_evm::U256;",
           "type Result<T, E = NetworkError> = std::result::Result<T, E>;",
           ""]
    c, m = extract_items("ant-networking/src/lib.rs", [("fn", "sort_peers_by_address"), ("fn", "sort_peers_by_key")])
    out.append(c)
    meta.append(m)
    c, m = extract_items("ant-node/src/node.rs", [("fn", "calculate_get_closest_peers")])
    out.append("pub struct Node;\nimpl Node {\n" + c.replace("fn calculate_get_closest_peers", "pub fn calculate_get_closest_peers") + "\n}")
    meta.append(m)
    write_if_changed(f"{DST}/closest_items.rs", "\n".join(out) + "\n")
    # feature flag copied from ant-node's default features
    toml = read_repo("ant-node/Cargo.toml")
    md = re.search(r"^default\s*=\s*\[(.*?)\]", toml, re.M | re.S)
    defaults = md.group(1) if md else ""
    encrypt_default = '"encrypt-records"' in defaults
    me = re.search(r'^encrypt-records\s*=\s*\[(.*?)\]', toml, re.M | re.S)
    forwards = bool(me and "ant-networking/encrypt-records" in me.group(1))
    return {"transplanted": meta, "encrypt_records": bool(encrypt_default and forwards)}


if __name__ == "__main__":
    import json
    try:
        print(json.dumps(generate(), indent=1))
    except EncodingError as e:
        print("ENCODING-ERROR", e)
        sys.exit(2)
