"""Generates /verif/harness/d_node/src/gen/* from /repo's working tree."""
import os, re, sys
sys.path.insert(0, os.path.dirname(__file__))
from transplant import *

DST = os.path.join(os.path.dirname(os.path.dirname(os.path.abspath(__file__))), "harness", *"d_node/src/gen".split("/"))


def generate():
    meta = []
    # ant-evm/src/data_payments.rs over a symbolic SystemTime and an ideal signature scheme
    meta.append(transplant_file(
        "ant-evm/src/data_payments.rs", f"{DST}/data_payments.rs",
        {"libp2p": "crate::shim::libp2p", "std": "crate::shim::std"},
        subs=[("#[cfg(target_arch = \"wasm32\")]\npub use wasmtimer::std::SystemTime;", "", 1)],
        # type-level: outside its two constants, every u64 this file could name is a number of seconds taken from the
        # (symbolic) clock -- e.g. a helper extracted by a refactor that returns Option<u64> (none exists today); numeric casts
        # `x as u64` of native integers stay native
        post=lambda body: "\n".join(l if re.match(r"\s*(pub(\([^)]*\))?\s+)?const\s", l) else re.sub(r"(?<!as )\bu64\b", "crate::shim::SymSecs", l) for l in body.split("\n")),
        append='#[path = "../h_quote.rs"]\npub mod harness;\n',
        require=["fn verify_for", "fn check_is_signed_by_claimed_peer", "fn has_expired", "fn bytes_for_signing", "fn historical_verify"]))
    # ant-protocol scratchpad with a symbolic counter (explicit, checked type substitutions)
    meta.append(transplant_file(
        "ant-protocol/src/storage/scratchpad.rs", f"{DST}/scratchpad.rs",
        {"super": "crate::shim::ant_protocol::storage", "crate": "crate::shim::ant_protocol"},
        subs=[("    counter: u64,", "    counter: crate::shim::Counter,", 1),
              ("            counter: 0,", "            counter: crate::shim::Counter::zero(),", 1),
              ("    pub fn count(&self) -> u64 {", "    pub fn count(&self) -> crate::shim::Counter {", 1),
              ("    pub fn increment(&mut self) -> u64 {", "    pub fn increment(&mut self) -> crate::shim::Counter {", 1),
              ("sk: &SecretKey) -> u64 {", "sk: &SecretKey) -> crate::shim::Counter {", 1)],
        append='#[path = "../h_scratchpad_access.rs"]\npub mod access;\n',
        require=["pub fn is_valid(&self) -> bool"]))
    meta.append(transplant_file(
        "ant-node/src/error.rs", f"{DST}/node_error.rs", {"ant_protocol": "crate::shim::ant_protocol"},
        subs=[("pub(super) type Result", "pub type Result", 1)]))
    meta.append(transplant_file(
        "ant-node/src/put_validation.rs", f"{DST}/put_validation.rs",
        {"ant_evm": "crate::shim::ant_evm", "ant_protocol": "crate::shim::ant_protocol", "ant_networking": "crate::shim::ant_networking"},
        # type-level: the only 64-bit integers this file handles are scratchpad counters (none is named today; a helper
        # extracted by a refactor may take one as a parameter)
        post=lambda body: re.sub(r"\bu64\b", "crate::shim::Counter", body),
        append='#[path = "../h_put.rs"]\npub mod harness;\n',
        require=["async fn payment_for_us_exists_and_is_still_valid", "async fn validate_key_and_existence",
                 "pub(crate) async fn store_replicated_in_record", "pub(crate) async fn validate_and_store_scratchpad_record"]))
    # the node's own quote creation / verification and the duty check on neighbours' quotes (C13, C03)
    meta.append(transplant_file(
        "ant-node/src/quote.rs", f"{DST}/node_quote.rs",
        {"ant_evm": "crate::shim::ant_evm", "ant_networking": "crate::shim::ant_networking", "ant_protocol": "crate::shim::ant_protocol", "std": "crate::shim::std"},
        append='#[path = "../h_node_quote.rs"]\npub mod harness;\n',
        require=["fn create_quote_for_storecost", "fn verify_quote_for_storecost", "async fn quotes_verification"]))
    # node-side fetch of an advertised record from its holder, with the network as fall-back (C09)
    rp, mr = extract_items("ant-node/src/replication.rs", [("fn", "fetch_replication_keys_without_wait")])
    meta.append(mr)
    write_if_changed(f"{DST}/replication_items.rs",
                     "// GENERATED from ant-node/src/replication.rs item -- do not edit\n"
                     "use crate::{node::Node, Result};\n"
                     "use crate::shim::ant_networking::{GetRecordCfg, Network};\n"
                     "use crate::shim::ant_protocol::{messages::{Cmd, Query, QueryResponse, Request, Response}, storage::RecordType, NetworkAddress, PrettyPrintRecordKey};\n"
                     "use libp2p::{kad::{Quorum, Record, RecordKey}, PeerId};\nuse symrt::env::spawn;\n#[allow(unused_imports)]\nuse bytes::Bytes;\n\n"
                     "impl Node {\n" + rp + "\n}\n\n#[path = \"../h_replication.rs\"]\npub mod harness;\n")
    # the contract wrapper of evmlib (C03): verify_data_payment over a model PaymentVaultHandler
    v, mv = extract_items("evmlib/src/contract/payment_vault/mod.rs", [("fn", "verify_data_payment")])
    meta.append(mv)
    write_if_changed(f"{DST}/payment_vault.rs",
                     "// GENERATED from evmlib/src/contract/payment_vault/mod.rs item -- do not edit\n"
                     "use crate::shim::vault::{error, http_provider, interface, PaymentVaultHandler};\n"
                     "use ::ant_evm::EvmNetwork as Network;\nuse evmlib::common::{Address, Amount, QuoteHash};\nuse evmlib::quoting_metrics::QuotingMetrics;\n\n" + v + "\n")
    # the network layer's resolution of split replies, which sits between the swarm and the client read (C15)
    hs, mh = extract_items("ant-networking/src/lib.rs", [("fn", "handle_split_record_error")])
    # the client-facing read with its retry loop (C05): every attempt is one GetNetworkRecord command answered by the
    # harness's model driver; the back-off sleep is a no-op
    gr, mgr = extract_items("ant-networking/src/lib.rs", [("fn", "get_record_from_network")])
    gr = gr.replace("crate::target_arch::sleep(", "crate::shim::retry::sleep(")
    meta.append(mgr)
    gt, mg = extract_items("ant-networking/src/transactions.rs", [("fn", "get_transactions_from_record")])
    meta += [mh, mg]
    # the only integers this function handles are scratchpad counters, which are the symbolic Counter type here
    hs = re.sub(r"\bu64\b", "crate::shim::Counter", hs)
    write_if_changed(f"{DST}/split_items.rs",
                     "// GENERATED from ant-networking/src/lib.rs and transactions.rs items -- do not edit\n"
                     "use crate::shim::ant_protocol::storage::{try_deserialize_record, try_serialize_record, RecordHeader, RecordKind, Scratchpad, Transaction};\n"
                     "use crate::shim::ant_protocol::{NetworkAddress, PrettyPrintRecordKey};\n"
                     "use ::ant_networking::NetworkError;\nuse ant_registers::SignedRegister;\n"
                     "use libp2p::kad::{Record, RecordKey};\nuse libp2p::PeerId;\n"
                     "use std::collections::{HashMap, HashSet};\nuse xor_name::XorName;\n"
                     "#[allow(unused_imports)]\nuse bytes::Bytes;\n"
                     "#[allow(unused_imports)]\nuse ::ant_networking::{GetRecordCfg, GetRecordError};\n"
                     "#[allow(unused_imports)]\nuse ant_protocol::storage::RetryStrategy;\n"
                     "#[allow(unused_imports)]\nuse crate::shim::retry::{oneshot, NetworkSwarmCmd};\n"
                     "pub use crate::shim::retry::Network;\n"
                     "type Result<T, E = NetworkError> = std::result::Result<T, E>;\n\n"
                     + gt + "\n\nimpl Network {\n" + hs.replace("    fn handle_split_record_error", "    pub(crate) fn handle_split_record_error") + "\n\n" + gr + "\n}\n")
    # client read paths (C15): items of autonomi
    a, m1 = extract_items("autonomi/src/client/data/public.rs", [("fn", "chunk_get")])
    b, m2 = extract_items("autonomi/src/client/vault.rs", [("enum", "VaultError"), ("fn", "get_vault_from_network")])
    c, m3 = extract_items("autonomi/src/client/data/mod.rs", [("enum", "GetError")])
    meta += [m1, m2, m3]
    b_enum, b_fn = b.split("\n\n", 1) if "async fn get_vault_from_network" not in b.split("\n\n", 1)[0] else ("", b)
    text = ("// GENERATED from autonomi/src/client/{data/public.rs,data/mod.rs,vault.rs} items -- do not edit\n"
            "use crate::shim::ant_networking::{GetRecordCfg, GetRecordError, NetworkError};\n"
            "use crate::shim::ant_protocol::storage::{try_deserialize_record, Chunk, ChunkAddress, RecordHeader, RecordKind, Scratchpad, ScratchpadAddress};\n"
            "use crate::shim::ant_protocol::NetworkAddress;\nuse crate::shim::client::{Client, ChunkAddr, VaultSecretKey};\n"
            "use libp2p::kad::Quorum;\nuse std::collections::HashSet;\nuse xor_name::XorName;\n"
            "// names the source files import as well (helpers extracted by a refactor may mention them)\n"
            "#[allow(unused_imports)]\nuse bls::{PublicKey, SecretKey};\n#[allow(unused_imports)]\nuse libp2p::kad::{Record, RecordKey};\n#[allow(unused_imports)]\nuse bytes::Bytes;\n\n"
            + c + "\n\n" + b_enum + "\n\nimpl Client {\n" + a + "\n\n" + b_fn + "\n}\n\n#[path = \"../h_client.rs\"]\npub mod harness;\n")
    text = text.replace("crate::self_encryption::Error", "crate::shim::client::SelfEncryptionError")
    # helpers extracted by a refactor come along (module level); the scratchpad counter is the symbolic Counter type:
    # a bare `u64::MAX` on a line of its own is the "no version at all" sentinel compared with counters
    text = text + take_free_helpers()
    text, n = re.subn(r"(?m)^([ \t]*)u64::MAX[ \t]*$", r"\1crate::shim::Counter::max_value()", text)
    if n != 1:
        raise EncodingError(f"autonomi/src/client/vault.rs: expected exactly one bare `u64::MAX` sentinel line, found {n}")
    write_if_changed(f"{DST}/client_items.rs", text)
    return {"transplanted": meta}


if __name__ == "__main__":
    import json
    try:
        print(json.dumps(generate(), indent=1)[:300])
    except EncodingError as ex:
        print("ENCODING-ERROR", ex)
        sys.exit(2)
