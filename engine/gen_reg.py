"""Generates /verif/harness/d_reg/src/gen/reg/* : the whole ant-registers crate as a module tree."""
import os, re, sys
sys.path.insert(0, os.path.dirname(__file__))
from transplant import *

DST = os.path.join(os.path.dirname(os.path.dirname(os.path.abspath(__file__))), "harness", *"d_reg/src/gen/reg".split("/"))
FILES = ["address.rs", "error.rs", "metadata.rs", "permissions.rs", "reg_crdt.rs", "register.rs", "register_op.rs"]


def crate_to_reg(text):
    return re.sub(r"(?<![\w:])crate::(?!reg::|shim::)", "crate::reg::", text)


def generate():
    meta = []
    for f in FILES + ["lib.rs"]:
        rel = f"ant-registers/src/{f}"
        src = read_repo(rel)
        body = cut_test_module(src)
        body = crate_to_reg(body)
        subs = []
        if f == "register.rs":
            # the two numeric limits become symbolic: entry count and entry size.  Pattern-level (not site-level)
            # substitutions, so that renamed locals and extracted helpers keep the encoding alive; each pattern must
            # occur at least once, otherwise the encoding cannot be regenerated (exit 2)
            rules = [(r"self\.ops\.len\(\)", "crate::shim::sym_count(self.ops.len())", 1),
                     (r"(\b\w+)\.crdt_op\.value\.len\(\)", r"crate::shim::sym_size(&\1.crdt_op.value)", 1),
                     (r"Error::TooManyEntries\(([^()]+)\)", r"Error::TooManyEntries((\1).into())", 1),
                     (r"EntryTooBig\s*\{(\s*)size,", r"EntryTooBig {\1size: size.into(),", 0),
                     (r"EntryTooBig\s*\{(\s*)size:\s*(?![^,]*\.into\(\))([^,]+),", r"EntryTooBig {\1size: (\2).into(),", 0)]
            n_subs = 0
            for pat, repl, need in rules:
                body, n = re.subn(pat, repl, body)
                if n < need:
                    raise EncodingError(f"{rel}: pattern not found: {pat}")
                n_subs += n
            # a free helper (column-0 `fn`, not a method) that receives one of the two lengths as `usize` receives the
            # symbolic length instead (s45: the count checks moved into `fn check_num_entries(reg_size: usize)`); a call
            # site that still passes a plain usize then fails to build -> exit 2, never a wrong verdict
            def _sym_params(m):
                return m.group(1) + re.sub(r":\s*usize\b", ": crate::shim::SymLen", m.group(2)) + m.group(3)
            body, n = re.subn(r"(?m)^((?:pub(?:\([a-z]+\))? )?fn \w+\()([^)]*\busize\b[^)]*)(\))", _sym_params, body)
            n_subs += n
            if "size: size.into()" not in body and ".into()," not in body:
                raise EncodingError(f"{rel}: no EntryTooBig construction found")
            subs = [None] * n_subs
            body += '\n#[path = "../../h_register.rs"]\npub mod harness;\n'
        if f == "lib.rs":
            body = body.replace("#[macro_use]\nextern crate tracing;", "")
        out = f"// GENERATED from {rel} (sha256 {sha(src)}) -- do not edit\n" + body
        write_if_changed(f"{DST}/{'mod.rs' if f == 'lib.rs' else f}", out)
        meta.append({"file": rel, "sha256": sha(src), "substitutions": len(subs)})
    return {"transplanted": meta}


if __name__ == "__main__":
    import json
    try:
        print(json.dumps(generate(), indent=1)[:200])
    except EncodingError as ex:
        print("ENCODING-ERROR", ex)
        sys.exit(2)
