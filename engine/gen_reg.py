"""Generates /verif/harness/d_reg/src/gen/reg/* : the whole ant-registers crate as a module tree."""
import os, re, sys
sys.path.insert(0, os.path.dirname(__file__))
from transplant import *

DST = os.path.join(os.path.dirname(os.path.dirname(os.path.abspath(__file__))), "harness", *"d_reg/src/gen/reg".split("/"))
FILES = ["address.rs", "error.rs", "metadata.rs", "permissions.rs", "reg_crdt.rs", "register.rs", "register_op.rs"]


def crate_to_reg(text):
    return re.sub(r"(?<![\w:])crate::(?!reg::|shim::)", "crate::reg::", text)


def generate():
    meta = []
    for f in FILES + ["lib.rs"]:
        rel = f"ant-registers/src/{f}"
        src = read_repo(rel)
        body = cut_test_module(src)
        body = crate_to_reg(body)
        subs = []
        if f == "register.rs":
            # the two numeric limits become symbolic: entry size and entry count (8 checked substitution sites)
            subs = [("let reg_size = self.ops.len();", "let reg_size = crate::shim::sym_count(self.ops.len());", 2),
                    ("let size = op.crdt_op.value.len();", "let size = crate::shim::sym_size(&op.crdt_op.value);", 2),
                    ("Error::TooManyEntries(reg_size)", "Error::TooManyEntries(reg_size.into())", 2),
                    ("                    size,\n                    max: MAX_REG_ENTRY_SIZE,", "                    size: size.into(),\n                    max: MAX_REG_ENTRY_SIZE,", 1),
                    ("                size,\n                max: MAX_REG_ENTRY_SIZE,", "                size: size.into(),\n                max: MAX_REG_ENTRY_SIZE,", 1)]
            body = apply_subs(body, subs, rel)
            body += '\n#[path = "../../h_register.rs"]\npub mod harness;\n'
        if f == "lib.rs":
            body = body.replace("#[macro_use]\nextern crate tracing;", "")
        out = f"// GENERATED from {rel} (sha256 {sha(src)}) -- do not edit\n" + body
        write_if_changed(f"{DST}/{'mod.rs' if f == 'lib.rs' else f}", out)
        meta.append({"file": rel, "sha256": sha(src), "substitutions": len(subs)})
    return {"transplanted": meta}


if __name__ == "__main__":
    import json
    try:
        print(json.dumps(generate(), indent=1)[:200])
    except EncodingError as ex:
        print("ENCODING-ERROR", ex)
        sys.exit(2)
