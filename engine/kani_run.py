"""Engine K: Kani/CBMC proof harnesses over the real crates (path dependencies on /repo)."""
import concurrent.futures
import os
import re
import shutil
import subprocess
import time

ROOT = os.path.dirname(os.path.dirname(os.path.abspath(__file__)))
HARNESS = os.path.join(ROOT, "harness")
MAXPAR = int(os.environ.get("VERIF_KANI_PAR", "12"))


def tdir(crate):
    return os.path.join(ROOT, "target", "kani_" + crate)


def env():
    e = dict(os.environ)
    e["CARGO_NET_OFFLINE"] = "true"
    e.pop("RUSTFLAGS", None)
    return e


def pregen(crate):
    """some K crates transplant items out of /repo (same cutter as engine D)"""
    gen = None
    if crate == "k_misc":
        import gen_kmisc
        gen = gen_kmisc.generate()
    lock = os.path.join(HARNESS, crate, "Cargo.lock")
    if not os.path.exists(lock):
        shutil.copy("/repo/Cargo.lock", lock)
    return gen


def prebuild(crate):
    pregen(crate)
    cmd = ["cargo", "kani", "--target-dir", tdir(crate), "--only-codegen", "-Z", "stubbing"]
    p = subprocess.run(cmd, cwd=os.path.join(HARNESS, crate), capture_output=True, text=True, env=env())
    if p.returncode != 0:
        raise RuntimeError(f"kani codegen of {crate} failed:\n" + "\n".join((p.stdout + p.stderr).splitlines()[-40:]))


def run_one(crate, hs, t, extra=()):
    name = hs["name"]
    timeout = t.get("timeout", 900)
    mem_kb = t.get("mem_gb", 12) * 1024 * 1024
    cmd = f"ulimit -v {mem_kb}; exec cargo kani --target-dir {tdir(crate)} --harness {name} -Z stubbing --output-format terse " + " ".join(extra)
    t0 = time.time()
    try:
        p = subprocess.run(["bash", "-c", cmd], cwd=os.path.join(HARNESS, crate), capture_output=True, text=True, env=env(), timeout=timeout)
        out = p.stdout + "\n" + p.stderr
        timed_out = False
    except subprocess.TimeoutExpired as e:
        out = (e.stdout or b"").decode(errors="replace") if isinstance(e.stdout, bytes) else (e.stdout or "")
        timed_out = True
        # kill stray cbmc children of this harness
        subprocess.run(["bash", "-c", f"pkill -f 'cbmc.*{name}' || true"])
    return name, out, timed_out, time.time() - t0


def parse(out):
    r = {"status": None, "failed": [], "checks": 0, "nfailed": 0, "covers_sat": 0, "covers_total": 0, "time": 0.0, "unwind_fail": False}
    # a harness filter is a substring match: if it selected several harnesses, any failure counts
    verdicts = re.findall(r"VERIFICATION:- (SUCCESSFUL|FAILED)", out)
    if verdicts:
        r["status"] = "FAILED" if "FAILED" in verdicts else "SUCCESSFUL"
    for m in re.finditer(r"\*\* (\d+) of (\d+) failed", out):
        r["nfailed"] += int(m.group(1))
        r["checks"] += int(m.group(2))
    for m in re.finditer(r"\*\* (\d+) of (\d+) cover properties satisfied", out):
        r["covers_sat"] += int(m.group(1))
        r["covers_total"] += int(m.group(2))
    for m in re.finditer(r"Verification Time: ([0-9.]+)s", out):
        r["time"] += float(m.group(1))
    for fm in re.finditer(r"Failed Checks: (.*)\n(?:\s*File: \"([^\"]*)\", line (\d+), in (\S+))?", out):
        desc = fm.group(1).strip()
        r["failed"].append({"desc": desc, "file": fm.group(2), "line": fm.group(3), "func": fm.group(4)})
        if "unwinding assertion" in desc:
            r["unwind_fail"] = True
    if "Status: ERROR" in out or "CBMC failed" in out or "out of memory" in out.lower():
        r["status"] = "ERROR"
    return r


def normalise(desc):
    """role-normalised signature of a failed check: drop numbers that vary with input sizes"""
    d = re.sub(r"\d+", "N", desc)
    return d[:160]


def run(crate, harness_specs, tier, seed, result):
    gen = pregen(crate)
    if gen:
        result["functions"].extend(gen.get("transplanted", []))
    result["functions"].append({"crate": crate, "note": "Kani compiles the real crate sources under /repo through path dependencies"})
    # one build first so that the parallel runs only do per-harness work
    try:
        prebuild(crate)
    except RuntimeError as e:
        result["inconclusive"].append(str(e)[-1500:])
        return
    todo = []
    for hs in harness_specs:
        t = hs.get(tier) or hs.get("quick")
        if t is None:
            continue
        todo.append((hs, t))
    with concurrent.futures.ThreadPoolExecutor(max_workers=MAXPAR) as ex:
        futs = [ex.submit(run_one, crate, hs, t) for hs, t in todo]
        outs = [f.result() for f in futs]
    for (hs, t), (name, out, timed_out, wall) in zip(todo, outs):
        r = parse(out)
        rep = {"engine": "K", "harness": name, "about": hs.get("about", ""), "status": r["status"], "checks": r["checks"],
               "failed": r["nfailed"], "covers": f"{r['covers_sat']}/{r['covers_total']}", "cbmc_time_s": r["time"], "wall_s": round(wall, 1),
               "stubs": hs.get("stubs", []), "bound": hs.get("bound", "")}
        result["harness_reports"].append(rep)
        result["solver_s"] += r["time"]
        if timed_out:
            result["inconclusive"].append(f"{name}: timeout after {t.get('timeout', 900)} s")
            result["exhaustive"] = False
            continue
        if r["status"] is None or r["status"] == "ERROR":
            result["inconclusive"].append(f"{name}: kani did not produce a verdict (tool error / out of memory): {out[-600:]}")
            continue
        result["queries"] += r["checks"]
        result["obligations"] += r["checks"] + r["covers_total"]
        real_fail = [f for f in r["failed"] if "unwinding assertion" not in f["desc"]]
        if r["status"] == "SUCCESSFUL":
            result["discharged"] += r["checks"] + r["covers_sat"]
            if r["covers_sat"] < r["covers_total"]:
                result["inconclusive"].append(f"{name}: vacuity witness unreachable ({r['covers_sat']}/{r['covers_total']} covers satisfied)")
            else:
                result["distinct"] += 1
                result["samples"].append({"harness": name, "kani": f"{r['checks']} checks, {r['covers_sat']} reachability witnesses satisfied", "bound": hs.get("bound", "")})
            continue
        # FAILED
        result["discharged"] += r["checks"] - r["nfailed"]
        if r["unwind_fail"] and not real_fail:
            result["inconclusive"].append(f"{name}: unwinding assertion failed (bound too small for the stated input size)")
            continue
        if not real_fail:
            # cover failures only, or unparsed
            if r["covers_sat"] < r["covers_total"]:
                result["inconclusive"].append(f"{name}: vacuity witness unreachable ({r['covers_sat']}/{r['covers_total']})")
            else:
                result["inconclusive"].append(f"{name}: FAILED without a parsable failed check: {out[-400:]}")
            continue
        seen = set()
        for f in real_fail:
            sig = normalise(f["desc"])
            if sig in seen:
                continue
            seen.add(sig)
            v = {"engine": "K", "crate": crate, "harness": name, "check": sig, "detail": f"{f['desc']} at {f['file']}:{f['line']} in {f['func']}",
                 "notes": [hs.get("about", "")], "replayed": None, "model": {}, "trail": []}
            result["violations"].append(v)
    # concrete playback for new violations is done lazily by the caller through confirm()


def confirm(v):
    """Replay a K counterexample: ask Kani for the concrete values (concrete playback) and run the
    generated unit test natively against the real crate.  Sets v['replayed'] and v['playback_test']."""
    crate, name = v["crate"], v["harness"]
    _, out, timed_out, _ = run_one(crate, {"name": name}, {"timeout": 1800}, extra=("-Z", "concrete-playback", "--concrete-playback=print"))
    # Kani prints one generated test per failed check AND one per satisfied cover!: the witnesses of covers are
    # not counterexamples; the tests of failed checks are tried in turn until one reproduces natively
    tests = [m.group(1) for m in re.finditer(r"```\n(.*?)```", out, re.S)]
    tests = [t for t in tests if not re.search(r"/// Check for `cover`", t)]
    if not tests:
        v["replayed"] = None
        return v
    # prefer the test generated for the check this violation is about; all candidates are appended to one scratch copy
    # and run in a single native test run (one build), the violation is confirmed if any of them fails
    want = (v.get("check") or "").split("[")[0]
    tests.sort(key=lambda t: 0 if want and want in t else 1)
    tests = tests[:6]
    r = _playback(crate, name, tests, v)
    v["replayed"] = r
    v["playback_test"] = tests[0]
    return v


def _playback(crate, name, tests, v):
    names = [m.group(1) for t in tests for m in [re.search(r"fn (kani_concrete_playback_\w+)", t)] if m]
    if not names:
        return None
    # scratch copy of the harness crate with the tests appended to the module that owns the harness
    scratch = os.path.join(ROOT, "target", "kani_playback", f"{crate}-{os.getpid()}")
    shutil.rmtree(scratch, ignore_errors=True)
    shutil.copytree(os.path.join(HARNESS, crate), scratch, ignore=shutil.ignore_patterns("target"))
    owner = None
    for root, _, files in os.walk(os.path.join(scratch, "src")):
        for fn in files:
            p = os.path.join(root, fn)
            text = open(p).read()
            if re.search(r"fn\s+" + re.escape(name) + r"\s*\(", text) or re.search(r"!\(\s*" + re.escape(name) + r"\s*,", text):
                owner = p
    if not owner:
        shutil.rmtree(scratch, ignore_errors=True)
        return None
    with open(owner, "a") as f:
        for t in tests:
            f.write("\n" + t + "\n")
    e = env()
    # the native test build of the dependency tree is kept between confirmations
    e["CARGO_TARGET_DIR"] = os.path.join(ROOT, "target", f"kani_playback_target_{crate}")
    try:
        p = subprocess.run(["cargo", "kani", "playback", "-Z", "concrete-playback", "--", "kani_concrete_playback_" + name], cwd=scratch,
                           capture_output=True, text=True, env=e, timeout=3000)
        o = p.stdout + p.stderr
    except subprocess.TimeoutExpired:
        o = "playback timed out"
    shutil.rmtree(scratch, ignore_errors=True)
    if re.search(r"test result: FAILED|panicked at", o):
        return True
    # a run that executed no test says nothing
    if re.search(r"test result: ok\. [1-9]\d* passed", o):
        return False
    v["playback_log"] = o[-800:]
    return None


def replay(v):
    v2 = confirm(dict(v))
    print(v2.get("playback_test", "")[:2000])
    if v2.get("replayed"):
        print(f"VIOLATION property={v.get('property','?')} replay=(kani concrete playback reproduced the failure natively)")
        return 1
    print("counterexample did not reproduce natively")
    return 2
