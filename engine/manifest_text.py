D_TECH = "solver-based: dynamic symbolic execution of transplanted Rust source (cvc5 QF_BV incremental, z3 cross-check), bounded"
K_TECH = "solver-based: Kani/CBMC bounded model checking of the real crate (cadical)"
D_NOTE = "trusted: the shims listed in evidence.assumptions (in-memory fs, task list for spawn, recorder channels, symbolic clock, symbolic xor distance over a collision-free hash table, fixed-state HashMap hasher); bounds in evidence.coverage.bounds; counterexamples are re-executed concretely on the same transplanted source before being reported"


def ENGINES(PROPS):
    d = sorted(p for p, s in PROPS.items() if any(x["engine"] == "D" for x in s["parts"]))
    k = sorted(p for p, s in PROPS.items() if any(x["engine"] == "K" for x in s["parts"]))
    out = [{"name": "symrt (engine D)", "path": "engine/symrt", "serves_properties": d,
            "kind_free_text": "dynamic symbolic execution of transplanted real source: rustc-compiled function bodies run natively over SymU<W> scalars; every comparison forks through cvc5 (incremental), obligations discharged by cvc5 and cross-checked with z3; counterexamples replayed concretely"}]
    if k:
        out.append({"name": "kani (engine K)", "path": "harness/k_*", "serves_properties": k,
                    "kind_free_text": "Kani 0.68 / CBMC 6.11 proof harnesses over the real crates (path dependencies on /repo), kani::any() inputs, unwinding assertions on, cover! reachability witnesses"})
    return out


LEVEL_TEXT = {
    "C01": {"engine": "symrt (engine D)", "technique": D_TECH, "note": D_NOTE,
            "text": "bounded symbolic execution of the real record_store.rs + cmd.rs arms over every history of <=3 operations on <=2 keys and every completion order of the spawned tasks (FIFO per key); cache timestamps are symbolic; obligations (reads return only accepted bytes; settled state equals last accepted write / removal) are discharged per path"},
    "C02": {"engine": "symrt (engine D)", "technique": D_TECH, "note": D_NOTE,
            "text": "bounded symbolic execution of the real record_store.rs: history, crash with any subset of background tasks run and one write torn at every byte prefix, restart through the real with_config; real AES-GCM-SIV runs on each path; index/distance consistency after restart is decided by the solver over 256-bit symbolic hashes"},
    "C03": {"engine": "symrt (engine D)", "technique": D_TECH, "note": D_NOTE,
            "text": "bounded symbolic execution of the real validate_and_store_record / payment_for_us_exists_and_is_still_valid / ProofOfPayment::verify_for / PaymentQuote::{check_is_signed_by_claimed_peer, has_expired}: every combination of the payment conditions on 1..2 quotes, symbolic quote timestamps against a symbolic clock; 'stored only if all seven conditions hold' and 'otherwise rejected, nothing stored' are discharged per path"},
    "C04": {"engine": "symrt (engine D)", "technique": D_TECH, "note": D_NOTE,
            "text": "the three acceptance paths of put_validation.rs executed for every record kind under the content-derived key and under a foreign key: a foreign key is rejected and the store is unchanged"},
    "C05": {"engine": "symrt (engine D) + kani (engine K)", "technique": D_TECH + "; " + K_TECH + " for get_quorum_value over every n", "note": D_NOTE,
            "text": "one-step inductive symbolic execution of the real quorum accumulation code over symbolic peer and content identities: from any pending read that satisfies the invariant, every reply or terminating event either keeps the invariant or delivers exactly one outcome per caller; a value only with a quorum of distinct peers for identical content that equals the expected value; split reads carry every version"},
    "C06": {"engine": "symrt (engine D)", "technique": D_TECH, "note": D_NOTE + "; the order/duplication part of the quantifier is explored by choice forks (exhaustive within the bound), the solver's share is the two numeric limits",
            "text": "the whole ant-registers crate transplanted and executed: entry size and entry count are symbolic so that add_op / verify / merge limit consistency is decided for all counts and sizes; authorisation of operations through add_op and verified_merge for every signer / signature / address combination; merge laws and convergence over all delivery orders of two 3-operation pools (distinct entries; the same entry written by two writers)"},
    "C07": {"engine": "symrt (engine D)", "technique": D_TECH, "note": D_NOTE,
            "text": "scratchpad updates with symbolic 64-bit counters (stored vs delivered) on the update and replication paths decided by the solver; transaction/register unions in both orders; a transaction set and a scratchpad of one owner key (same record key) in both orders; two concurrent deliveries with unrelated symbolic counters explored under every interleaving of their query round trips and deferred puts"},
    "C08": {"engine": "symrt (engine D)", "technique": D_TECH, "note": D_NOTE,
            "text": "bounded symbolic execution of the real replication_fetcher.rs: each fetcher entry point from arbitrary small states with symbolic 256-bit distances, symbolic deadlines and clock; obligations per call (held/in-range/farthest filters, no duplicate fetch, parallel limit, closest first, expiry reporting, completion) and a 2-round bounded progress obligation"},
    "C09": {"engine": "symrt (engine D)", "technique": D_TECH, "note": D_NOTE,
            "text": "per-round obligations of replication decided on the real try_interval_replication / get_replicate_candidates / add_keys_to_replication_fetcher / add_keys bodies with symbolic distances, range and timestamps; the node-side fetch of an advertised key from its holder (replication.rs) through to store_replicated_in_record; multi-round convergence itself is not claimed"},
    "C11": {"engine": "symrt (engine D)", "technique": D_TECH, "note": D_NOTE,
            "text": "closeness decisions (sort_peers_by_address/key, get_peers_in_range, get_replicate_candidates, calculate_get_closest_peers) executed symbolically over 256-bit symbolic hashes: output order, k-nearest and range filters compared with the XOR integer by the solver"},
    "C12": {"engine": "kani (engine K)", "technique": K_TECH, "note": "trusted: Kani/CBMC, the stubs listed per harness in evidence.coverage.harnesses (tracing no-ops, fmt::format, rmp decoder in the slicing harnesses); reduced claim: tag table, header size, decoder inverse, slicing logic; full value round trips through serde-derive+rmp are outside",
            "text": "Kani harnesses on the real ant-protocol crate: the RecordKind tag table and decoder over all u32 tags, the rmp-encoded header bytes for all kinds, and panic-freedom / clean failure of the record decoders' slicing logic for all contents of records up to 4 bytes"},
    "C13": {"engine": "symrt (engine D) + kani (engine K)", "technique": D_TECH + "; " + K_TECH + " for the signed byte string", "note": D_NOTE + "; Kani part: rmp_serde::to_vec replaced by a fixed-width encoder driven by the real Serialize impl of QuotingMetrics",
            "text": "the node's quote.rs (create / verify a quote, duty check on neighbours' quotes) and the real PaymentQuote::{has_expired, check_is_signed_by_claimed_peer, hash, historical_verify} and ProofOfPayment::verify_for executed with symbolic timestamps against a symbolic clock (expiry boundary decided by the solver) and an ideal signature scheme; every single-field alteration, key swap and claimed-identity swap must fail verification; CBMC decides that PaymentQuote::bytes_for_signing gives different bytes for any two field sets that differ in one signed field"},
    "C15": {"engine": "symrt (engine D)", "technique": D_TECH, "note": D_NOTE,
            "text": "the real chunk_get and get_vault_from_network bodies and the network layer's handle_split_record_error executed against a model network that returns adversarial replies: data handed back must hash to the requested address; the returned scratchpad must be the owner's, validly signed and the highest valid counter among symbolic counters"},
    "C16": {"engine": "kani (engine K) + symrt (engine D)", "technique": K_TECH + "; " + D_TECH, "note": "trusted: ruint's big-integer algorithms (modelled: u128 stubs in K, division lemma and bounded parse values in D), Kani/CBMC, cvc5 (bv-as-int), z3",
            "text": "checked_add/checked_sub decided by CBMC on fully symbolic 256-bit operands against a carry-chain reference; from_str decided by CBMC for all ASCII strings up to 3 (thorough 4) characters and by symbolic execution for digit templates with symbolic 256-bit values (overflow of units*10^18 + fraction); Display decided for all 256-bit amounts from the formatting requests recorded from the real write!"},
    "C17": {"engine": "kani (engine K)", "technique": K_TECH, "note": "trusted: Kani/CBMC; library loops (hex::decode, serde_json, multiaddr parsing) are replaced or left outside as listed in evidence; transplanted items are copied verbatim from /repo on every run",
            "text": "one Kani harness per parser and decoded size: panics, slice-index errors and arithmetic overflow are the assertions, inputs are symbolic bytes / full integer ranges"},
    "C18": {"engine": "symrt (engine D)", "technique": D_TECH, "note": D_NOTE + "; concurrent writers are modelled as a second process whose whole flush lands between any two file-system operations of the first (finer interleavings of two writers are outside the claim)",
            "text": "bounded symbolic execution of the real cache_store.rs: operation sequences with symbolic clock advances (expiry and oldest-peer decisions are the solver's), limits / reliability / well-formedness after every clean-up, merge with the on-disk cache, save-load round trip through real serde_json, corrupt files, two processes flushing one file over a POSIX-like file model with a reader loading the file at every moment"},
    "C10": {"engine": "symrt (engine D)", "technique": D_TECH, "note": D_NOTE,
            "text": "bounded symbolic execution of the real record_store.rs / cmd.rs arms: every path of one store operation from small reachable states (capacity 1..3), with 256-bit symbolic hashes and a symbolic responsible range, is decided by the SMT solver; burst, clean-up threshold and restart harnesses"},
}

NOT_APPLICABLE = {
    "C14": "self_encryption (compression + AES-CBC + SHA-3 over >= 3 bytes up to MiB-sized inputs, size-class boundaries at multiples of 1 MiB): loop trip counts grow with input and control flow is data dependent per byte; neither CBMC nor path-forking symbolic execution gets past a few bytes, and stubbing self_encryption removes the property's subject (DESIGN.md §5)",
    "C19": "service lifecycle under faults is a finite fault-enumeration space over mock-driven string/path/JSON state with no large scalar domain for a solver; deciding it would be fault enumeration, a different technique family (DESIGN.md §5)",
    "C20": "option-presence product over format!/OsString builders: under engine D nothing is symbolic (pure 2^k enumeration), under Kani the string code is out of reach; clap's derive parser cannot be executed symbolically (DESIGN.md §5)",
}
