//! Stand-in for `#[macro_use] extern crate tracing;`: the five logging macros type-check their arguments and do nothing.
#[macro_export]
macro_rules! trace { ($($t:tt)*) => { if false { let _ = format!($($t)*); } } }
#[macro_export]
macro_rules! debug { ($($t:tt)*) => { if false { let _ = format!($($t)*); } } }
#[macro_export]
macro_rules! info { ($($t:tt)*) => { if false { let _ = format!($($t)*); } } }
#[macro_export]
macro_rules! warn { ($($t:tt)*) => { if false { let _ = format!($($t)*); } } }
#[macro_export]
macro_rules! error { ($($t:tt)*) => { if false { let _ = format!($($t)*); } } }
