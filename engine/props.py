"""Property table and runners (engine D = symrt harness crates, engine K = Kani harness crates)."""
import fcntl
import json
import os
import subprocess
import sys
import tempfile
import time

ROOT = os.path.dirname(os.path.dirname(os.path.abspath(__file__)))
HARNESS_WS = os.path.join(ROOT, "harness")
TARGET = os.path.join(ROOT, "target", "harness")
NCPU = os.cpu_count() or 8


class Inconclusive(Exception):
    pass


def repo_state():
    try:
        head = subprocess.run(["git", "-C", "/repo", "rev-parse", "--short", "HEAD"], capture_output=True, text=True).stdout.strip()
        dirty = subprocess.run(["git", "-C", "/repo", "status", "--porcelain", "--untracked-files=no"], capture_output=True, text=True).stdout.strip()
        return head + ("+dirty" if dirty else "")
    except Exception:
        return "unknown"


# ---------------------------------------------------------------- engine D
def gen_for(crate):
    if crate == "d_net":
        import gen_net
        return gen_net.generate()
    if crate == "d_node":
        import gen_node
        return gen_node.generate()
    if crate == "d_reg":
        import gen_reg
        return gen_reg.generate()
    if crate == "d_boot":
        import gen_boot
        return gen_boot.generate()
    if crate == "d_evm":
        import gen_evm
        return gen_evm.generate()
    if crate == "d_kad":
        import gen_kad
        return gen_kad.generate()
    if crate == "d_client":
        import gen_client
        return gen_client.generate()
    raise Inconclusive(f"no generator for {crate}")


def build_crate(crate, features):
    os.makedirs(TARGET, exist_ok=True)
    lock_src = "/repo/Cargo.lock"
    lock_dst = os.path.join(HARNESS_WS, "Cargo.lock")
    with open(os.path.join(TARGET, ".build.lock"), "w") as lk:
        fcntl.flock(lk, fcntl.LOCK_EX)
        # always start from /repo's lock file: it pins (also yanked) versions that the offline
        # registry index would otherwise refuse to select for newly added dependencies
        with open(lock_src) as f, open(lock_dst, "w") as g:
            g.write(f.read())
        # never trust mtimes alone: if the generated sources differ from what the last successful build
        # of this crate saw, bump their mtime so that cargo rebuilds them
        import hashlib
        gen_dirs = [os.path.join(HARNESS_WS, crate, "src", "gen")]
        h = hashlib.sha256()
        files = []
        for gd in gen_dirs:
            for root, _, fns in os.walk(gd):
                for fn in sorted(fns):
                    fp = os.path.join(root, fn)
                    files.append(fp)
                    with open(fp, "rb") as f:
                        h.update(fp.encode() + b"\0" + f.read())
        h.update(",".join(sorted(features or [])).encode())
        digest = h.hexdigest()
        stamp = os.path.join(TARGET, f".genhash-{crate}")
        last = open(stamp).read() if os.path.exists(stamp) else ""
        if last != digest:
            now = time.time()
            for fp in files:
                os.utime(fp, (now, now))
        cmd = ["cargo", "build", "--offline", "-p", crate]
        if features:
            cmd += ["--features", ",".join(features)]
        env = dict(os.environ)
        env["CARGO_NET_OFFLINE"] = "true"
        env["RUSTFLAGS"] = env.get("RUSTFLAGS", "") + " -Awarnings"
        p = subprocess.run(cmd, cwd=HARNESS_WS, capture_output=True, text=True, env=env)
        if p.returncode != 0:
            tail = "\n".join(p.stderr.splitlines()[-40:])
            # a transplanted body that no longer compiles against the shims is an encoding failure
            raise Inconclusive(f"harness crate {crate} does not build against /repo's current source:\n{tail}")
        with open(stamp, "w") as f:
            f.write(digest)
        # copy the binary so that a later rebuild with other features does not race with a running check
        src = os.path.join(TARGET, "debug", crate)
        fd, dst = tempfile.mkstemp(prefix=f"{crate}-", dir=TARGET)
        os.close(fd)
        with open(src, "rb") as f, open(dst, "wb") as g:
            g.write(f.read())
        os.chmod(dst, 0o755)
        return dst


def run_d(crate, harness_specs, tier, seed, result):
    gen = gen_for(crate)
    features = []
    if crate == "d_net" and gen.get("encrypt_records"):
        features.append("encrypt-records")
    result["functions"].extend(gen["transplanted"])
    binary = build_crate(crate, features)
    try:
        for hs in harness_specs:
            t = hs.get(tier) or hs.get("quick")
            if t is None:
                continue
            # thorough tiers may repeat a harness under further hasher seeds (other HashMap iteration orders)
            for extra_seed in t.get("seeds", [0]):
                hs_run = dict(hs)
                hid = hs.get("id", hs["name"]) + (f"@seed+{extra_seed}" if extra_seed else "")
                hs_run["id"] = hid
                out = binary + f".{hid}.json"
                cmd = [binary, hs["name"], "--threads", str(t.get("threads", NCPU)), "--max-paths", str(t.get("max_paths", 100000)),
                       "--seed", str(seed + extra_seed), "--split-depth", str(t.get("split_depth", 3)), "--out", out,
                       "--crosscheck-every", str(t.get("crosscheck_every", 211)),
                       # the runner stops itself before the hard kill, so counterexamples found so far are still reported
                       "--time", str(int(t.get("timeout", 3600) * 0.8))]
                run_one_d(cmd, out, hs_run, t, crate, result, features)
    finally:
        try:
            os.unlink(binary)
        except OSError:
            pass


def run_one_d(cmd, out, hs, t, crate, result, features):
    env = dict(os.environ)
    for k, v in t.get("env", {}).items():
        env[k] = str(v)
    t0 = time.time()
    try:
        p = subprocess.run(cmd, capture_output=True, text=True, timeout=t.get("timeout", 3600), env=env)
    except subprocess.TimeoutExpired:
        result["inconclusive"].append(f"{hs['name']}: timeout after {t.get('timeout', 3600)} s")
        return
    if p.returncode != 0 or not os.path.exists(out):
        result["inconclusive"].append(f"{hs['name']}: harness binary failed: {p.stderr[-400:]}")
        return
    with open(out) as f:
        rep = json.load(f)[0]
    os.unlink(out)
    absorb_d(rep, hs, crate, result, time.time() - t0, features)


def absorb_d(rep, hs, crate, result, wall, features):
    name = hs.get("id", hs["name"])
    rep["harness"] = hs["name"]
    result["paths"] += rep["paths"]
    result["queries"] += rep["solver_queries"]
    result["solver_s"] += rep["solver_time_s"]
    result["decided"] += rep["solver_decided_nodes"]
    result["choice_forks"] += rep["choice_forks"]
    result["crosschecked"] += rep["crosschecked"]
    nchecks = sum(rep["checks_by_name"].values())
    result["obligations"] += nchecks
    result["discharged"] += rep["checks_discharged"]
    result["distinct"] += rep.get("paths_with_checks", 0)
    if not rep["exhausted"] and not rep["violations"]:
        result["inconclusive"].append(f"{name}: stated bound not exhausted within the path/time budget ({rep['paths']} paths)")
        result["exhaustive"] = False
    if rep["inconclusive"]:
        result["inconclusive"].append(f"{name}: {rep['inconclusive']} solver answers were unknown")
    if rep["crosscheck_disagreements"]:
        result["inconclusive"].append(f"{name}: cvc5 and z3 disagree on {rep['crosscheck_disagreements']} queries")
    for c in hs.get("covers", []):
        if rep["covers"].get(c, 0) == 0 and not rep["violations"]:
            result["inconclusive"].append(f"{name}: vacuity witness '{c}' was never reached")
    for v in rep["violations"]:
        # a harness shared with another property may be restricted to the obligations that belong to this one
        if hs.get("only") and not any(v["check"].startswith(pfx) for pfx in hs["only"]):
            continue
        v = dict(v)
        v["harness"] = hs["name"]
        v["variant"] = name
        v["env"] = (hs.get(result.get("tier", "quick")) or hs.get("quick") or {}).get("env", {})
        v["crate"] = crate
        v["features"] = features
        result["violations"].append(v)
    for s in rep["samples"][:2]:
        result["samples"].append({"harness": name, **s})
    result["harness_reports"].append({
        "engine": "D", "harness": name, "about": rep.get("about", ""), "paths": rep["paths"], "pruned": rep["pruned"],
        "solver_queries": rep["solver_queries"], "solver_time_s": rep["solver_time_s"],
        "solver_decided_nodes": rep["solver_decided_nodes"], "both_feasible_nodes": rep["both_feasible_nodes"],
        "choice_forks": rep["choice_forks"], "final_queries": rep["final_queries"],
        "obligations": nchecks, "discharged": rep["checks_discharged"], "checks_by_name": rep["checks_by_name"],
        "covers": rep["covers"], "exhausted": rep["exhausted"], "violations": len(rep["violations"]), "wall_s": round(wall, 2),
    })


# ---------------------------------------------------------------- engine K (Kani)
def run_k(crate, harness_specs, tier, seed, result):
    import kani_run
    kani_run.run(crate, harness_specs, tier, seed, result)


def new_result():
    return {"violations": [], "inconclusive": [], "functions": [], "paths": 0, "queries": 0, "solver_s": 0.0,
            "decided": 0, "choice_forks": 0, "crosschecked": 0, "obligations": 0, "discharged": 0, "distinct": 0,
            "exhaustive": True, "samples": [], "harness_reports": [], "engines": [], "repo_state": repo_state()}


def run_property(pid, spec, tier, seed):
    result = new_result()
    result["tier"] = tier
    for part in spec["parts"]:
        if part["engine"] == "D":
            result["engines"].append(f"D:{part['crate']}")
            run_d(part["crate"], part["harnesses"], tier, seed, result)
        elif part["engine"] == "K":
            result["engines"].append(f"K:{part['crate']}")
            run_k(part["crate"], part["harnesses"], tier, seed, result)
    if result["distinct"] < 2 and not result["violations"] and not result["inconclusive"]:
        result["inconclusive"].append("fewer than 2 non-trivial cases were explored")
    if not result["samples"]:
        result["samples"].append({"note": "no sample recorded"})
    return result


def replay(pid, path):
    with open(path) as f:
        v = json.load(f)
    if v.get("engine") == "K":
        import kani_run
        return kani_run.replay(v)
    crate = v["crate"]
    gen = gen_for(crate)
    binary = build_crate(crate, v.get("features", []))
    try:
        fd, tmp = tempfile.mkstemp(suffix=".json", dir=TARGET)
        os.close(fd)
        with open(tmp, "w") as f:
            json.dump({"harness": v["harness"], "violations": [v]}, f)
        env = dict(os.environ)
        for k, val in v.get("env", {}).items():
            env[k] = str(val)
        p = subprocess.run([binary, "--replay", tmp, "0"], capture_output=True, text=True, env=env)
        os.unlink(tmp)
        print(p.stdout.strip())
        if p.returncode == 1:
            print(f"VIOLATION property={pid} replay={path}")
            return 1
        print(f"counterexample did not reproduce (exit {p.returncode})")
        return 2 if p.returncode != 0 else 0
    finally:
        os.unlink(binary)


# ---------------------------------------------------------------- property table
sys.path.insert(0, os.path.dirname(os.path.abspath(__file__)))
from props_table import PROPS  # noqa: E402
