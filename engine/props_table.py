"""Which harnesses decide which property, with the bounds of each tier."""

COMMON_D_ASSUMPTIONS = [
    "engine D: the transplanted source is compiled by rustc and executed natively under symrt; std HashMap/HashSet are the real std containers with a fixed (seed-selected) hasher state so that re-execution is deterministic",
    "hashes (SHA-256 of key bytes / SHA-3 of content) are a collision-free function on the finite key universe: H[id] is a free 256-bit symbolic value per id, pairwise distinct",
    "convert_distance_to_u256 is the identity on the 256-bit distance (checked separately under C11)",
    "tracing macros are no-ops; spawn pushes a task on a list that the harness runs; mpsc channels are unbounded recorders",
]

STORE_ASSUMPTIONS = COMMON_D_ASSUMPTIONS + [
    "file system is the in-memory shim (write/read/remove on a path->bytes map); a torn write leaves a strict prefix of the new content",
    "record encryption uses the real aes-gcm-siv/hkdf crates iff ant-node's default features forward encrypt-records to ant-networking (read from ant-node/Cargo.toml on every run)",
    "background tasks of one key run in issue order (the property's own wording); tasks of different keys in any order",
    "same node identity after restart => same encryption seed (driver.rs derives it from the keypair; not re-verified)",
]

PROPS = {
    "C01": {
        "parts": [
            {"engine": "D", "crate": "d_net", "harnesses": [
                {"name": "c01_history", "id": "c01_history_2keys_2ops", "covers": ["settled", "settled_value", "settled_removed", "get_returned_value"],
                 "quick": {"env": {"C01_KEYS": 2, "C01_OPS": 2}, "max_paths": 100000, "timeout": 900},
                 "thorough": {"env": {"C01_KEYS": 2, "C01_OPS": 3}, "max_paths": 1000000, "timeout": 3000}},
                {"name": "c01_history", "id": "c01_history_1key_3ops", "covers": ["settled", "settled_value", "settled_removed"],
                 "quick": {"env": {"C01_KEYS": 1, "C01_OPS": 3}, "max_paths": 100000, "timeout": 900},
                 "thorough": {"env": {"C01_KEYS": 3, "C01_OPS": 2}, "max_paths": 1000000, "timeout": 3000}},
            ]},
        ],
        "assumptions": STORE_ASSUMPTIONS + ["disk writes succeed (write failures are RemoveFailedLocalRecord's subject, not part of this claim)",
                                            "cache timestamps are a symbolic non-decreasing 64-bit clock (equal timestamps allowed)"],
        "bounds": {"quick": "2 keys x 2 operations and 1 key x 3 operations from {put v0/v1, remove, get}, cache size 1..2, every interleaving of background tasks/notifications between operations",
                   "thorough": "2 keys x 3 operations and 3 keys x 2 operations"},
        "outside": ["longer histories, more keys", "real disk and OS caching", "same-key task reordering (outside the property's wording)", "capacity effects (C10)"],
    },
    "C02": {
        "parts": [
            {"engine": "D", "crate": "d_net", "harnesses": [
                {"name": "c02_crash", "id": "c02_crash_2keys_2ops", "covers": ["restarted", "torn_write", "durable_value", "durable_removed", "served_after_restart"],
                 "quick": {"env": {"C02_KEYS": 2, "C02_OPS": 2}, "max_paths": 200000, "timeout": 900},
                 "thorough": {"env": {"C02_KEYS": 2, "C02_OPS": 3}, "max_paths": 3000000, "timeout": 3400}},
            ]},
        ],
        "assumptions": STORE_ASSUMPTIONS + ["crash model: a subset of pending tasks (FIFO per key) has run; at most one write is torn at an arbitrary byte prefix; notifications are lost"],
        "bounds": {"quick": "2 keys x 2 operations from {put v0/v1, remove}, every subset/order of background tasks, every prefix length of one torn record file",
                   "thorough": "2 keys x 3 operations"},
        "outside": ["real fsync / page cache behaviour", "more keys and operations", "several torn files at once"],
    },
    "C10": {
        "parts": [
            {"engine": "D", "crate": "d_net", "harnesses": [
                {"name": "c10_put_step", "covers": ["below_capacity", "at_capacity_accept", "at_capacity_refuse"],
                 "quick": {"max_paths": 20000, "timeout": 600}, "thorough": {"max_paths": 200000, "timeout": 3000}},
                {"name": "c10_burst", "covers": ["both_accepted"],
                 "quick": {"max_paths": 20000, "timeout": 600}},
                {"name": "c10_cleanup", "covers": ["applies", "not_applicable", "removed_some"],
                 "quick": {"max_paths": 20000, "timeout": 600}},
                {"name": "c10_metrics", "covers": ["with_range", "without_range"],
                 "quick": {"max_paths": 50000, "timeout": 600}},
            ]},
        ],
        "assumptions": COMMON_D_ASSUMPTIONS + [
            "file system is the in-memory shim (write/read/remove on a path->bytes map)",
            "record encryption uses the real aes-gcm-siv/hkdf crates when ant-node's default features forward encrypt-records",
        ],
        "bounds": {"quick": "capacity 1..3, <=3 held keys, 1 operation, 256-bit symbolic hashes",
                   "thorough": "as quick plus bursts of 2 unacknowledged writes, clean-up across the threshold, restart"},
        "outside": ["more keys/steps than the bound", "real disk", "SHA-256 itself"],
    },
}
