"""Which harnesses decide which property, with the bounds of each tier."""

COMMON_D_ASSUMPTIONS = [
    "engine D: the transplanted source is compiled by rustc and executed natively under symrt; std HashMap/HashSet are the real std containers with a fixed (seed-selected) hasher state so that re-execution is deterministic",
    "hashes (SHA-256 of key bytes / SHA-3 of content) are a collision-free function on the finite key universe: H[id] is a free 256-bit symbolic value per id, pairwise distinct",
    "convert_distance_to_u256 is the identity on the 256-bit distance (checked separately under C11)",
    "tracing macros are no-ops; spawn pushes a task on a list that the harness runs; mpsc channels are unbounded recorders",
]

PROPS = {
    "C10": {
        "parts": [
            {"engine": "D", "crate": "d_net", "harnesses": [
                {"name": "c10_put_step", "covers": ["below_capacity", "at_capacity_accept", "at_capacity_refuse"],
                 "quick": {"max_paths": 20000, "timeout": 600}, "thorough": {"max_paths": 200000, "timeout": 3000}},
            ]},
        ],
        "assumptions": COMMON_D_ASSUMPTIONS + [
            "file system is the in-memory shim (write/read/remove on a path->bytes map)",
            "record encryption uses the real aes-gcm-siv/hkdf crates when ant-node's default features forward encrypt-records",
        ],
        "bounds": {"quick": "capacity 1..3, <=3 held keys, 1 operation, 256-bit symbolic hashes",
                   "thorough": "as quick plus bursts of 2 unacknowledged writes, clean-up across the threshold, restart"},
        "outside": ["more keys/steps than the bound", "real disk", "SHA-256 itself"],
    },
}
