"""Which harnesses decide which property, with the bounds of each tier."""

COMMON_D_ASSUMPTIONS = [
    "engine D: the transplanted source is compiled by rustc and executed natively under symrt; std HashMap/HashSet are the real std containers with a fixed (seed-selected) hasher state so that re-execution is deterministic",
    "hashes (SHA-256 of key bytes / SHA-3 of content) are a collision-free function on the finite key universe: H[id] is a free 256-bit symbolic value per id, pairwise distinct",
    "convert_distance_to_u256 is the real function (item transplanted from ant-protocol/src/lib.rs) run on the Debug text of the shim Distance, which prints what libp2p prints: `Distance(<decimal digits>)`; the decimal text of a symbolic value is a 90-digit placeholder number (longer than any 256-bit value) that the shim's FromStr maps back to the term, constants print and parse as their real digits; trusted: uint's Debug prints plain decimal and ruint's FromStr parses it (both libraries are out of the solvers' reach)",
    "tracing macros are no-ops; spawn pushes a task on a list that the harness runs; mpsc channels are unbounded recorders",
]

K_STUBS_TRACING = ["tracing::Event::dispatch, DefaultCallsite::interest, __is_enabled -> no-ops (kani-compiler ICE on the dispatcher thread-local; logging has no effect on state)"]
K_ASSUMPTIONS = [
    "engine K: Kani 0.68 / CBMC 6.11 (cadical) on the real crate compiled from /repo through a path dependency; unwinding assertions on; every harness has kani::cover! reachability witnesses that must be SATISFIED",
    "alloc::fmt::format is stubbed to return an empty String (error messages are not the subject)",
]


def kh(name, about, bound, stubs=(), quick=300, thorough=None, only=None, mem_gb=None):
    d = {"name": name, "about": about, "bound": bound, "stubs": list(stubs)}
    if only != "thorough":
        d["quick"] = {"timeout": quick}
    d["thorough"] = {"timeout": thorough or max(quick, 900)}
    if mem_gb:
        for t in ("quick", "thorough"):
            if t in d:
                d[t]["mem_gb"] = mem_gb
    return d


NODE_ASSUMPTIONS = [
    "engine D on transplanted ant-node/src/put_validation.rs + error.rs, ant-evm/src/data_payments.rs, ant-protocol/src/storage/scratchpad.rs; real: rmp (de)serialisation of records, Chunk, Transaction, SignedRegister, blsttc signatures, ant-networking NetworkError, NetworkAddress",
    "wall clock and quote timestamps are symbolic 64-bit seconds (sub-second part dropped); their 8 signed bytes are an injective placeholder of the term",
    "quote signatures: ideal scheme behind libp2p-identity's API (key i <-> peer i; verify(pk, m, s) iff s = SIG(pk, m))",
    "scratchpad counter is a symbolic 64-bit value (5 checked type substitutions in scratchpad.rs: field, constructor, count/increment/update_and_sign return types)",
    "Node/Network handles are a model: store = map key -> record; payment contract answers as the harness chooses; close peers = {self, peer1, peer2}",
]

STORE_ASSUMPTIONS = COMMON_D_ASSUMPTIONS + [
    "file system is the in-memory shim (write/read/remove on a path->bytes map); a torn write leaves a strict prefix of the new content",
    "record encryption uses the real aes-gcm-siv/hkdf crates iff ant-node's default features forward encrypt-records to ant-networking (read from ant-node/Cargo.toml on every run)",
    "background tasks of one key run in issue order (the property's own wording); tasks of different keys in any order",
    "same node identity after restart => same encryption seed (driver.rs derives it from the keypair; not re-verified)",
]

C13_K_STUBS = ["rmp_serde::to_vec -> fixed-width field-by-field encoder driven by the real serde::Serialize impl of QuotingMetrics (msgpack itself is trusted to be injective and self-delimiting)"]

PROPS = {
    "C01": {
        "parts": [
            {"engine": "D", "crate": "d_net", "harnesses": [
                {"name": "c01_history", "id": "c01_history_2keys_2ops", "covers": ["settled", "settled_value", "settled_removed", "get_returned_value"],
                 "quick": {"env": {"C01_KEYS": 2, "C01_OPS": 2}, "max_paths": 100000, "timeout": 900},
                 "thorough": {"env": {"C01_KEYS": 2, "C01_OPS": 3}, "max_paths": 1000000, "timeout": 3000}},
                {"name": "c01_history", "id": "c01_history_1key_3ops", "covers": ["settled", "settled_value", "settled_removed"],
                 "quick": {"env": {"C01_KEYS": 1, "C01_OPS": 3}, "max_paths": 100000, "timeout": 900},
                 "thorough": {"env": {"C01_KEYS": 3, "C01_OPS": 2}, "max_paths": 1000000, "timeout": 3000}},
                {"name": "c01_history", "id": "c01_history_1key_3ops_mutable_kind", "covers": ["settled", "settled_value", "settled_removed"],
                 "quick": {"env": {"C01_KEYS": 1, "C01_OPS": 3, "C01_NONCHUNK_FIRST": 1}, "max_paths": 100000, "timeout": 900}},
                {"name": "c01_sizes", "covers": ["settled"], "quick": {"max_paths": 1000, "timeout": 900}},
            ]},
        ],
        "assumptions": STORE_ASSUMPTIONS + ["disk writes succeed (write failures are RemoveFailedLocalRecord's subject, not part of this claim)",
                                            "cache timestamps are a symbolic non-decreasing 64-bit clock (equal timestamps allowed)"],
        "bounds": {"quick": "2 keys x 2 operations and 1 key x 3 operations (once on a chunk, once on a mutable kind) from {put v0/v1, remove, get}, cache size 1..2, every interleaving of background tasks/notifications between operations",
                   "thorough": "2 keys x 3 operations and 3 keys x 2 operations"},
        "outside": ["longer histories, more keys", "real disk and OS caching", "same-key task reordering (outside the property's wording)", "capacity effects (C10)"],
    },
    "C02": {
        "parts": [
            {"engine": "D", "crate": "d_net", "harnesses": [
                {"name": "c02_crash", "id": "c02_crash_2keys_2ops", "covers": ["restarted", "torn_write", "durable_value", "durable_removed", "served_after_restart", "settled_removal"],
                 "quick": {"env": {"C02_KEYS": 2, "C02_OPS": 2}, "max_paths": 200000, "timeout": 900},
                 "thorough": {"env": {"C02_KEYS": 2, "C02_OPS": 3}, "max_paths": 3000000, "timeout": 3400}},
            ]},
        ],
        "assumptions": STORE_ASSUMPTIONS + ["crash model: a subset of pending tasks (FIFO per key) has run; at most one write is torn at an arbitrary byte prefix; notifications are lost"],
        "bounds": {"quick": "2 keys x 2 operations from {put v0/v1, remove}, every subset/order of background tasks, every prefix length of one torn record file",
                   "thorough": "2 keys x 3 operations"},
        "outside": ["real fsync / page cache behaviour", "more keys and operations", "several torn files at once"],
    },
    "C03": {
        "parts": [
            {"engine": "D", "crate": "d_node", "harnesses": [
                {"name": "c03_paid_put", "covers": ["unknown_payee_xor_near", "stored", "rejected"], "quick": {"max_paths": 100000, "timeout": 900}},
                {"name": "c03_unpaid_put", "covers": ["immutable_unpaid", "not_held", "update_of_held", "presented_under_the_key_of_another_held_record"], "quick": {"max_paths": 1000, "timeout": 600}},
            ]},
        ],
        "assumptions": NODE_ASSUMPTIONS,
        "bounds": {"quick": "one upload of each of the 4 paid kinds with 1..2 quotes; every combination of {signatures authentic, self among payees, payees close, contract answer, own quote's address}; quote timestamps are free symbolic instants (fresh / older than 3600 s / in the future decided by the solver); key absent before; unpaid uploads of all 4 kinds with the key held or not"},
        "outside": ["the real EVM contract (any answer is possible in the model)", "ed25519/RSA signature schemes themselves (ideal scheme)", "more than 2 quotes", "msgpack decoding of adversarial bytes (C12)"],
    },
    "C04": {
        "parts": [
            {"engine": "D", "crate": "d_net", "harnesses": [
                {"name": "c04_unverified_put", "covers": ["put", "oversized", "unparseable", "forwarded", "store_at_capacity"], "quick": {"max_paths": 1000, "timeout": 300}},
            ]},
            {"engine": "D", "crate": "d_node", "harnesses": [
                {"name": "c04_key_binding", "covers": ["foreign_key", "derived_key", "content_already_held_under_its_own_key"], "quick": {"max_paths": 1000, "timeout": 600}},
                {"name": "c07_union", "only": ["tx:foreign_owner_entry_never_stored", "no_panic"], "covers": ["transactions"], "quick": {"max_paths": 1000, "timeout": 600}},
            ]},
        ],
        "assumptions": NODE_ASSUMPTIONS,
        "bounds": {"quick": "4 record kinds x 3 acceptance paths (paid client put, unpaid update, replication) x {derived key, foreign key}; the foreign key is also held where the path requires a held record"},
        "outside": ["rmp decoding of adversarial bytes", "SHA-3 as the chunk name function (real code runs on concrete bytes)"],
    },
    "C05": {
        "parts": [
            {"engine": "D", "crate": "d_kad", "harnesses": [
                {"name": "c05_event_step", "covers": ["terminal", "still_pending", "value_returned", "split_returned", "mismatch_returned", "not_found_returned", "not_enough_returned", "timeout_returned", "same_peer_answers_twice"], "quick": {"max_paths": 200000, "timeout": 900},
                 "thorough": {"env": {"C05_MAXV": 3, "C05_MAXR": 3}, "max_paths": 3000000, "timeout": 3400}},
                {"name": "c05_dedup", "covers": ["both_waiting", "second_caller_got_value"], "quick": {"max_paths": 10000, "timeout": 600}},
                {"name": "c05_split_transactions", "covers": ["completed", "union_returned"], "quick": {"max_paths": 10000, "timeout": 600}},
            ]},
            {"engine": "D", "crate": "d_node", "harnesses": [
                {"name": "c05_client_retries", "covers": ["read_done", "value", "error"], "quick": {"max_paths": 100000, "timeout": 600}},
            ]},
            {"engine": "K", "crate": "k_misc", "harnesses": [
                kh("c05_quorum_value_exact", "get_quorum_value: N(n) -> n for every non-zero n, One -> 1, All -> CLOSE_GROUP_SIZE, Majority -> least count above half", "all 2^64-1 values of n"),
            ]},
        ],
        "assumptions": [
            "engine D on items of ant-networking: accumulate_get_record_found, handle_get_record_finished, handle_get_record_error, send_record_after_checking_target (event/kad.rs), the GetNetworkRecord arm (cmd.rs), GetRecordCfg + does_target_match (driver.rs), get_quorum_value, close_group_majority (lib.rs), in a model SwarmDriver with exactly the fields they touch",
            "peer ids and record contents are symbolic 256-bit identities; the maps and sets of the transplanted items are association lists whose key equality asks the solver, so 'same peer twice', 'same content as another reply', 'equals the expected value' are partitions the solver decides; XorName::from_content is collision free (hash of a content = its identity)",
            "one-step induction: the pending read is an arbitrary state with <=2 versions x <=2 distinct responders in which no version has reached the quorum; every reply / terminating event is applied to it; the invariant is re-checked on reads that stay pending",
            "real tokio oneshot channels carry the outcomes; libp2p's query handle is a recorder; register/transaction payload decoding is replaced by typed shims (merge of transactions = set union)",
        ],
        "bounds": {"quick": "required count of every Quorum value (all n, Kani); quorum in {One, N(2), Majority(3), All(5)}, 1..2 waiting callers, optional expected value, <=2 versions x <=2 responders, one event from {reply from a new/known peer or self with new/known content, finished, not found, quorum failed, timeout}; de-duplication: two callers with independent quorums/expected values, up to 5 replies"},
        "outside": ["libp2p's own query progress semantics", "retries/backoff in get_record_from_network", "register merge in handle_split_record_error (client side)", "more than 2 versions / 2 responders per version in the pre-state"],
    },
    "C06": {
        "parts": [
            {"engine": "D", "crate": "d_reg", "harnesses": [
                {"name": "c06_limits", "covers": ["accepted", "rejected", "merged"], "quick": {"max_paths": 1000, "timeout": 300}},
                {"name": "c06_auth", "covers": ["accepted", "rejected", "replica_already_holds_the_entry"], "quick": {"max_paths": 1000, "timeout": 300}},
                {"name": "c06_converge", "covers": ["delivered", "same_entry_two_writers"], "quick": {"max_paths": 1000, "timeout": 600},
                 "thorough": {"env": {"C06_POOL": 4}, "max_paths": 100000, "timeout": 1800}},
            ]},
        ],
        "assumptions": [
            "engine D on the whole ant-registers crate transplanted as a module tree (address, error, metadata, permissions, reg_crdt, register, register_op); real blsttc signatures and the real crdts MerkleReg run natively",
            "8 checked substitution sites in register.rs make the two numeric limits symbolic: `self.ops.len()` is the real count plus a symbolic number of further valid entries every replica already holds; `op.crdt_op.value.len()` is a symbolic size for the entry the harness declares (signatures do not cover the declared size)",
            "the 64-bit DefaultHasher digest that RegisterOp signs is treated as collision free",
            "most of this property's quantifier is discrete (which operations, which replica, which order) and is covered by choice forks exhaustively within the bound; the solver decides the size and count limits",
        ],
        "bounds": {"quick": "entry size and number of entries already held fully symbolic (64-bit, < 5000 entries); one new operation, one merge of two valid replicas; permissions {anyone, writers}, signer {owner, writer, stranger}, signature {genuine, forged, for another register}, through add_op and verified_merge; pool of 3 operations (one causally dependent) delivered to 2 replicas in all 6x6 orders with a duplicate"},
        "outside": ["more operations and replicas", "the crdts crate itself", "hash collisions of the signed digest"],
    },
    "C07": {
        "parts": [
            {"engine": "D", "crate": "d_node", "harnesses": [
                {"name": "c07_scratchpad_seq", "covers": ["replaced", "kept", "first_write_still_pending", "unpaid_update_refused_while_first_write_pending"], "quick": {"max_paths": 10000, "timeout": 600}},
                {"name": "c07_union", "covers": ["transactions", "registers", "cross_kind", "restricted_register"], "quick": {"max_paths": 1000, "timeout": 600}},
                {"name": "c07_scratchpad_conc", "covers": ["settled", "replaced_by_a_delivery", "both_deliveries_stale"], "quick": {"max_paths": 100000, "timeout": 600},
                 "thorough": {"env": {"C07_CONC": 3}, "max_paths": 5000000, "timeout": 3400}},
            ]},
        ],
        "assumptions": NODE_ASSUMPTIONS + [
            "concurrency model: every Network query is a request/response through the swarm driver's channel, so the harness future yields before and after the read; put_local_record is fire-and-forget, its effect is deferred and applied in channel order; the scheduler variable picks the next step",
        ],
        "bounds": {"quick": "one stored scratchpad with symbolic 64-bit counter and one delivery with symbolic counter / owner / signature status on the update and replication paths; transaction sets and register replicas in 2 orders with duplication; two concurrent replicated scratchpad deliveries under every interleaving"},
        "outside": ["more than two concurrent deliveries", "the real record store behind the Network handle (C01)", "BLS itself (real blsttc runs natively)"],
    },
    "C08": {
        "parts": [
            {"engine": "D", "crate": "d_net", "harnesses": [
                {"name": "c08_add_multi", "thorough": {"max_paths": 1000000, "timeout": 3400, "seeds": [0, 1, 2]}, "covers": ["scheduled_some", "at_limit", "queued_and_scheduled"], "quick": {"max_paths": 100000, "timeout": 900}},
                {"name": "c08_add_single", "thorough": {"max_paths": 1000000, "timeout": 3400, "seeds": [0, 1, 2]}, "covers": ["single_started", "single_not_started"], "quick": {"max_paths": 100000, "timeout": 600}},
                {"name": "c08_expiry", "thorough": {"max_paths": 1000000, "timeout": 3400, "seeds": [0, 1, 2]}, "covers": ["some_expired", "none_expired", "dropped_queue_of_failed_holder"], "quick": {"max_paths": 100000, "timeout": 600}},
                {"name": "c08_complete", "thorough": {"max_paths": 1000000, "timeout": 3400, "seeds": [0, 1, 2]}, "covers": ["arrival", "early"], "quick": {"max_paths": 100000, "timeout": 600}},
                {"name": "c08_batch_dedupe", "thorough": {"max_paths": 1000000, "timeout": 3400, "seeds": [0, 1, 2]}, "covers": ["ran", "scheduled_some"], "quick": {"max_paths": 100000, "timeout": 600}},
                {"name": "c08_farthest", "covers": ["kept", "dropped"], "quick": {"max_paths": 100000, "timeout": 600}},
                {"name": "c09_range_follows", "covers": ["ran"], "quick": {"max_paths": 10000, "timeout": 600}},
                {"name": "c08_running_fetch_not_repeated", "covers": ["readvertised", "t2_was_running"], "quick": {"max_paths": 10000, "timeout": 600}},
                {"name": "c08_progress", "thorough": {"max_paths": 1000000, "timeout": 3400, "seeds": [0, 1, 2]}, "covers": ["done"], "quick": {"max_paths": 100000, "timeout": 900}},
            ]},
        ],
        "assumptions": COMMON_D_ASSUMPTIONS + [
            "the parallel-fetch limit K_VALUE (libp2p: 20) is replaced by 3 in the harness crate; the property is 'never exceeds the limit'",
            "clock: one symbolic instant per fetcher call (time does not advance inside a call); the harness advances it by a symbolic amount between calls",
            "H[self] = 0 without loss of generality (all distances are taken from the node itself)",
            "pre-states are built directly in the fetcher's private maps and assumed to satisfy: deadlines of live entries in the future, nothing queued or in flight beyond the farthest acceptable distance",
        ],
        "bounds": {"quick": "one fetcher call from states with <=4 in-flight and <=3 queued entries over a universe of <=6 keys, 3 record versions, 3 holders; advertisement lists of 1..3 keys; 2 rounds for progress",
                   "thorough": "same harnesses, other hasher seeds"},
        "outside": ["longer call sequences (covered only through the per-call obligations)", "unbounded liveness", "libp2p's K_VALUE = 20 itself"],
    },
    "C09": {
        "parts": [
            {"engine": "D", "crate": "d_net", "harnesses": [
                {"name": "c09_advertise", "covers": ["ran", "skipped_by_min_interval", "recently_served_peer_skipped"], "quick": {"max_paths": 100000, "timeout": 900}},
                {"name": "c09_receive", "covers": ["eligible_sender", "ineligible_sender"], "quick": {"max_paths": 100000, "timeout": 600}},
                {"name": "c09_range_follows", "covers": ["ran"], "quick": {"max_paths": 10000, "timeout": 600}},
                {"name": "c09_divergent_version", "covers": ["ran"], "quick": {"max_paths": 1000, "timeout": 600}},
                {"name": "c09_two_versions_both_fetched", "covers": ["ran"], "quick": {"max_paths": 10000, "timeout": 600}},
            ]},
            {"engine": "D", "crate": "d_node", "harnesses": [
                {"name": "c09_divergent_replica_fetched", "covers": ["fetched_divergent_version"], "quick": {"max_paths": 10000, "timeout": 600}},
                {"name": "c09_fetch_from_holder", "covers": ["fetched", "holder_had_it", "holder_sent_something_else", "holder_failed"], "quick": {"max_paths": 10000, "timeout": 600}},
            ]},
        ],
        "assumptions": COMMON_D_ASSUMPTIONS + [
            "c09_fetch_from_holder (d_node): request/response with the holder and the network read are scripted outcomes of the model Network; validation and storing are the transplanted put_validation.rs; spawned tasks are run to completion",
            "libp2p's get_closest_local_peers is modelled by its contract (all routing-table peers ascending by XOR distance to the key)",
            "claimed as per-round obligations only (advertise everything to the candidates; act only on lists from the K closest; a divergent version of a held key is scheduled); convergence over rounds is not claimed",
        ],
        "bounds": {"quick": "routing table of 6 (advertise) / 3 (receive) peers, <=2 held records, symbolic range, clock and served-until timestamps"},
        "outside": ["multi-round convergence between two real nodes", "message loss and churn", "acceptance of the fetched record (C04/C07 obligations)"],
    },
    "C11": {
        "parts": [
            {"engine": "D", "crate": "d_net", "harnesses": [
                {"name": "c11_candidates", "covers": ["by_range", "close_group_fallback"], "quick": {"max_paths": 100000, "timeout": 900}},
                {"name": "c08_add_multi", "covers": ["scheduled_some", "at_limit", "queued_and_scheduled"], "quick": {"max_paths": 100000, "timeout": 900}},
                {"name": "c11_peers_in_range", "covers": ["none_in_range", "some_in_range"], "quick": {"max_paths": 100000, "timeout": 600}},
                {"name": "c11_sort_peers", "covers": ["ok", "too_few"], "quick": {"max_paths": 100000, "timeout": 900}},
                {"name": "c11_calc_closest", "covers": ["range_filter", "k_nearest"], "quick": {"max_paths": 100000, "timeout": 900}},
            ]},
        ],
        "assumptions": COMMON_D_ASSUMPTIONS + [
            "distance(a,b) = H[a] xor H[b] on 256-bit values is libp2p's definition (trusted); the reference address has H = 0 without loss of generality",
        ],
        "bounds": {"quick": "3..6 peers with fully symbolic 256-bit hashes (6-peer case: order of three names fixed), requested counts 2/5/7, symbolic range"},
        "outside": ["SHA-256 and libp2p's xor themselves", "convert_distance_to_u256's decimal round trip through the uint and ruint libraries (see K harnesses)"],
    },
    "C12": {
        "parts": [
            {"engine": "D", "crate": "d_node", "harnesses": [
                {"name": "c12_encode_history", "covers": ["encoded", "after_a_failed_encoding"], "quick": {"max_paths": 10000, "timeout": 300}},
            ]},
            {"engine": "K", "crate": "k_proto", "harnesses": [
                kh("c12_kind_tag_table_fixed", "numeric tag of each of the 8 record kinds is the fixed wire value", "8 kinds, exhaustive"),
                kh("c12_kind_decoder_inverse_of_encoder", "RecordKind decoder accepts exactly tags 0..=7 and inverts the encoder", "all 2^32 tag values"),
                kh("c12_header_bytes_fixed_size_and_tag", "real rmp encoding of the header is [0x91, tag], RecordHeader::SIZE bytes, for every kind", "8 kinds", K_STUBS_TRACING),
                kh("c12_decoders_never_panic_len0", "from_record / is_record_of_type_chunk / try_deserialize_record on 0-byte records", "all contents, length 0", K_STUBS_TRACING + ["rmp_serde::from_slice -> Err"]),
                kh("c12_decoders_never_panic_len1", "... 1-byte records", "all contents, length 1", K_STUBS_TRACING + ["rmp_serde::from_slice -> Err"]),
                kh("c12_decoders_never_panic_len2", "... 2-byte records", "all contents, length 2", K_STUBS_TRACING + ["rmp_serde::from_slice -> Err"]),
                kh("c12_decoders_never_panic_len3", "... 3-byte records", "all contents, length 3", K_STUBS_TRACING + ["rmp_serde::from_slice -> Err"]),
                kh("c12_decoders_never_panic_len4", "... 4-byte records", "all contents, length 4", K_STUBS_TRACING + ["rmp_serde::from_slice -> Err"]),
                kh("c12_decoders_never_panic_len8", "... 8-byte records", "all contents, length 8", K_STUBS_TRACING + ["rmp_serde::from_slice -> Err"], only="thorough"),
                kh("c12_decoders_never_panic_sixteen_bytes", "... 16-byte records", "all contents, length 16", K_STUBS_TRACING + ["rmp_serde::from_slice -> Err"], only="thorough"),
            ]},
        ],
        "assumptions": K_ASSUMPTIONS + [
            "engine D part (c12_encode_history, d_node): the real try_serialize_record / try_deserialize_record / RecordHeader of ant-protocol run natively; the earlier encodings and the one under test are carried out on a fresh OS thread per path; a harness-local payload type fails its serialisation after 0 or 3 elements","rmp_serde::from_slice is stubbed to fail in the slicing harnesses: serde-derive + rmp decoding of symbolic bytes is out of CBMC's reach (measured > 15 min for 3 bytes)"],
        "bounds": {"quick": "all 8 kinds; all u32 tags; record lengths 0..4 with arbitrary contents", "thorough": "as quick, plus record lengths 8 and 16"},
        "outside": ["round trips of full values of every record kind and of Request/Response messages through serde-derive + rmp (not claimed)", "payloads with payment proofs", "decoding of arbitrary longer byte strings"],
    },
    "C13": {
        "parts": [
            {"engine": "D", "crate": "d_node", "harnesses": [
                {"name": "c13_expiry", "covers": ["expired", "valid"], "quick": {"max_paths": 1000, "timeout": 600}},
                {"name": "c13_binding", "covers": ["altered"], "quick": {"max_paths": 1000, "timeout": 600}},
                {"name": "c13_proof", "covers": ["verifies", "fails"], "quick": {"max_paths": 1000, "timeout": 600}},
                {"name": "c13_historical", "covers": ["inconsistent", "consistent", "grown", "both_in_the_past", "dated_ahead_of_the_verifier_clock"], "quick": {"max_paths": 1000, "timeout": 600}},
                {"name": "c13_node_quote", "covers": ["created"], "quick": {"max_paths": 10000, "timeout": 600}},
                {"name": "c13_quotes_duty", "covers": ["ran", "handed_down", "nothing_handed_down"], "quick": {"max_paths": 10000, "timeout": 600}},
            ]},
            {"engine": "K", "crate": "k_evm", "harnesses": [
                kh(f"c13_signed_bytes_bind_{f}", f"PaymentQuote::bytes_for_signing: two field sets that differ only in {what} give different signed bytes", "all values of every signed field (timestamp < 2^40 s); network_size present", C13_K_STUBS, quick=900, thorough=2400, only=only)
                for f, what, only in [("timestamp_seconds", "the timestamp (whole seconds)", None), ("rewards_address", "the rewards address", None),
                                      ("content", "the content address", "thorough"), ("close_records_stored", "close_records_stored", "thorough"), ("max_records", "max_records", "thorough"),
                                      ("received_payment_count", "received_payment_count", "thorough"), ("live_time", "live_time", "thorough"), ("network_size", "the value of network_size", "thorough")]
            ] + [
                kh("c13_signed_bytes_bind_presence_of_network_size", "bytes_for_signing: network_size present vs absent give different signed bytes", "all values of every signed field", C13_K_STUBS, quick=900, thorough=2400),
                kh("c13_signed_bytes_without_network_size_bind_live_time", "bytes_for_signing without network_size: differing live_time gives different signed bytes", "all values; network_size absent", C13_K_STUBS, quick=900, thorough=2400, only="thorough"),
            ]},
        ],
        "assumptions": NODE_ASSUMPTIONS[:3] + ["engine D: real rmp_serde encodes the (concrete) quoting metrics inside bytes_for_signing; single-field alterations are one representative altered value per field, except the timestamp, which is any different symbolic instant"] + K_ASSUMPTIONS + C13_K_STUBS,
        "bounds": {"quick": "one quote; timestamp and clock fully symbolic (64-bit seconds); 9 single-field alterations incl. key and claimed identity; proofs of 1..2 quotes with each quote genuine / forged / signed by another node; historical_verify with symbolic timestamps in both argument orders; Kani: bytes_for_signing on two fully symbolic field sets differing in one field (quick: timestamp, rewards address, presence of network_size; thorough: every signed field)"},
        "outside": ["ed25519/RSA and protobuf key decoding (ideal scheme)", "sub-second timestamp differences (the code signs whole seconds)", "injectivity of msgpack itself (the K harnesses replace rmp_serde::to_vec by a fixed-width encoder driven by the real Serialize impl)", "timestamps >= 2^40 s in the K harnesses"],
    },
    "C14": {
        "parts": [
            {"engine": "D", "crate": "d_client", "harnesses": [
                {"name": "c14_round_trip", "covers": ["too_small", "zero_levels", "one_level", "two_levels", "fetched", "random_content", "zero_content", "periodic_content", "repeated_blocks_content"],
                 "quick": {"max_paths": 100000, "timeout": 600},
                 "thorough": {"env": {"C14_LENS": 14}, "max_paths": 1000000, "timeout": 1800}},
            ]},
        ],
        "assumptions": COMMON_D_ASSUMPTIONS[:1] + [
            "engine D on transplanted autonomi/src/self_encryption.rs (whole file: encrypt, pack_data_map, wrap_data_map, DataMapLevel) and the items data_get_public, chunk_get, fetch_from_data_map, fetch_from_data_map_chunk, process_tasks_with_max_concurrency, GetError of autonomi/src/client; real: ant-protocol Chunk (its Serialize impl and content address), record header/codec, rmp-serde, bytes, futures::FuturesUnordered, SHA-3 content addresses",
            "the external self_encryption crate is an ideal model (shim::self_encryption): data of >= MIN_ENCRYPTABLE_BYTES bytes is cut into max(3, ceil(len/512)) pieces, the encrypted chunk of a piece is an invertible image of the same length keyed by the hashes of that piece and its two predecessors (as in the real crate), the data map lists index / chunk hash / piece hash / piece length, decrypt_full_set decrypts the chunks it is handed by index without comparing their number or hashes with the data map (as lenient as the real crate); compression, AES and the crate's own size classes are not executed",
            "what the repository's code reads as *MAX_CHUNK_SIZE is a symbolic 64-bit value assumed >= the model's piece size (in the real crate both are one constant); one checked substitution turns the buffer capacity hint BytesMut::with_capacity(*MAX_CHUNK_SIZE) into a native 0",
            "rayon's into_par_iter is sequential; tracing macros are no-ops; the client's network handle is an in-memory record source holding exactly the produced chunks, whose i-th reply becomes ready after a harness-chosen number of polls (completion order of concurrent fetches); CHUNK_DOWNLOAD_BATCH_SIZE in {1, 2, 64}",
        ],
        "bounds": {"quick": "input lengths 0,1,2,3,4, 3*512-1, 3*512, 3*512+1, 4*512, 10*512, 12*512+5, 60*512+7 (0, 1 and 2 additional data-map levels are reached; which one is decided by the solver from the symbolic MAX_CHUNK_SIZE against the concrete serialised sizes); all 6 completion orders of a 3-chunk read, 4 delay patterns otherwise; 3 batch sizes",
                   "thorough": "additionally lengths 7*512+3 and 200*512+1 (three additional levels)"},
        "outside": ["the self_encryption crate itself (compression, AES, its size classes at multiples of MAX_CHUNK_SIZE, MIN_ENCRYPTABLE_BYTES): ideal model", "contents other than four byte strings per length (pseudo-random; all zeros; periodic with the piece length; piece-aligned blocks X Y X -- equal chunks at one address, and equal source pieces whose chunks differ)", "more than two additional data-map levels", "private data (data_get with a DataMapChunk held by the user), archives and file-system walks", "upload, payment and retry behaviour of data_put"],
    },
    "C15": {
        "parts": [
            {"engine": "D", "crate": "d_node", "harnesses": [
                {"name": "c15_chunk", "covers": ["returned", "error"], "quick": {"max_paths": 1000, "timeout": 300}},
                {"name": "c15_vault", "covers": ["returned", "error", "error_reply_with_record_refused", "three_versions", "foreign_pad_under_its_own_key"], "quick": {"env": {"C15_VERSIONS": 3}, "max_paths": 100000, "timeout": 600}},
            ]},
            {"engine": "D", "crate": "d_client", "harnesses": [
                {"name": "c15_data_read_faults", "covers": ["read_done", "read_failed"], "quick": {"max_paths": 100000, "timeout": 600}},
            ]},
        ],
        "assumptions": NODE_ASSUMPTIONS[:1] + [
            "c15_data_read_faults (d_client): the transplanted data read of C14 over the same ideal self-encryption model and in-memory record source, in which one chunk is withheld or replaced by other validly encoded chunk content under the same key",
            "items chunk_get (autonomi/src/client/data/public.rs) and get_vault_from_network (vault.rs) are transplanted into a model Client whose network handle returns whatever reply the harness chooses (any record, SplitRecord set or error an adversarial holder set could produce)",
            "scratchpad counters are symbolic 64-bit values (one further checked substitution: the u64::MAX literal in the vault code); real blsttc signatures; real rmp record decoding",
            "most reply shapes are discrete and explored by choice forks; the solver decides the counter order of split versions",
        ],
        "bounds": {"quick": "chunk reads: 5 reply shapes (requested chunk, other chunk under the requested key, other kind, garbage, not found); vault reads: single reply or split into two versions, each owner in {requested, foreign} x signature in {valid, forged}, counters symbolic"},
        "outside": ["fetch_from_data_map over self_encryption (C14)", "more than two split versions (std HashMap iteration order of the real SplitRecord map would make re-execution non-deterministic)", "decryption of the vault content"],
    },
    "C16": {
        "parts": [
            {"engine": "K", "crate": "k_evm", "harnesses": [
                kh("c16_checked_add_exact_or_none", "checked_add on two fully symbolic 256-bit amounts equals the exact sum or None exactly on overflow", "all pairs of 256-bit values"),
                kh("c16_checked_sub_exact_or_none", "checked_sub ... exact difference or None exactly on underflow", "all pairs of 256-bit values"),
                kh("c16_from_str_len0", "AttoTokens::from_str on the empty string", "length 0", ["ruint from_str_radix/checked_mul/checked_add/pow -> u128 models"]),
                kh("c16_from_str_len1", "from_str on every 1-character ASCII string: accepted iff plain decimal, value exact", "all ASCII strings of length 1", ["ruint from_str_radix/checked_mul/checked_add/pow -> u128 models"], quick=600),
                kh("c16_from_str_len2", "... every 2-character ASCII string", "all ASCII strings of length 2", ["ruint from_str_radix/checked_mul/checked_add/pow -> u128 models"], quick=900),
                kh("c16_from_str_len3", "... every 3-character ASCII string", "all ASCII strings of length 3", ["ruint from_str_radix/checked_mul/checked_add/pow -> u128 models"], quick=1200, thorough=2400),
                kh("c16_from_str_len4", "... every 4-character ASCII string", "all ASCII strings of length 4", ["ruint from_str_radix/checked_mul/checked_add/pow -> u128 models"], thorough=3400, only="thorough"),
            ]},
            {"engine": "D", "crate": "d_evm", "harnesses": [
                {"name": "c16_display", "covers": ["formatted"], "quick": {"max_paths": 100, "timeout": 300, "env": {"SYMRT_CVC5_ARGS": "--solve-bv-as-int=sum"}}},
                {"name": "c16_from_str_arith", "covers": ["accepted", "rejected"], "quick": {"max_paths": 1000, "timeout": 600, "env": {"SYMRT_CVC5_ARGS": "--solve-bv-as-int=sum"}}},
            ]},
        ],
        "assumptions": K_ASSUMPTIONS + COMMON_D_ASSUMPTIONS[:1] + [
            "ruint's own algorithms (parsing, multiplication, division, printing) are library code out of CBMC's reach: in the K from_str harnesses Uint::from_str_radix/checked_mul/checked_add/pow are u128 models exact for <= 6 characters; in engine D Amount is a symbolic 256-bit value, Div/Rem follow the division lemma (a = q*d + r, r < d), parse returns any value with at most as many digits as the template, Display of the integer type is trusted to print plain decimal honouring width/zero-fill",
            "strings in the K harnesses are ASCII (from_utf8_unchecked + assume < 0x80)",
        ],
        "bounds": {"quick": "add/sub: all 256-bit pairs; from_str: all ASCII strings of length 0..3 and digit templates of 1/20/60/78 integer digits x 0/1/9/18/19 fraction digits with symbolic values; Display: all 256-bit amounts",
                   "thorough": "from_str additionally all ASCII strings of length 4"},
        "outside": ["parse(print(a)) = a as one statement for all a (follows only for the shapes covered)", "ruint's decimal conversion itself", "non-ASCII input"],
    },
    "C17": {
        "parts": [
            {"engine": "K", "crate": "k_proto", "harnesses": [
                kh(f"c17_register_from_hex_decoded_len{n}", f"RegisterAddress::from_hex when the text decodes to {n} bytes: error or value, never a panic", f"all contents, decoded length {n}", ["hex::decode -> vector of that length with symbolic bytes (or Err)", "bls::PublicKey::from_bytes -> Err (blst FFI)"])
                for n in (0, 1, 31, 32, 33, 79, 80, 81)
            ] + [
                kh(f"c17_register_from_hex_non_ascii_across_offset_{n}", f"RegisterAddress::from_hex on text of the accepted length (160 bytes) whose two-byte character straddles byte offset {n}: error, never a panic", "one concrete text; the decoder's answer symbolic (any 80 bytes or an error)", ["hex::decode -> 80 symbolic bytes (or Err)", "bls::PublicKey::from_bytes -> Err (blst FFI)"])
                for n in (64, 32, 1)
            ]},
            {"engine": "K", "crate": "k_misc", "harnesses": [
                kh("c17_increment_port_option_never_overflows", "increment_port_option over Option<u16>", "all 65536 ports and None"),
                kh("c17_port_range_validate_never_overflows", "PortRange::validate for every start/end/count", "all u16 triples"),
                kh("c17_port_range_parse_len1", "PortRange::parse on every 1-character ASCII string", "length 1", quick=300),
                kh("c17_port_range_parse_len2", "PortRange::parse on every 2-character ASCII string", "length 2", quick=600),
                kh("c17_port_range_parse_len3", "PortRange::parse on every 3-character ASCII string", "length 3", thorough=2400, only="thorough", mem_gb=24),
                kh("c17_check_port_availability_exact", "check_port_availability agrees with the recorded ports (ranges of <= 3 ports, incl. ending at 65535)", "all u16 values, one recorded node", quick=600),
            ] + [
                kh(f"c17_decrypt_private_key_decoded_len{n}", f"decrypt_private_key when the stored text decodes to {n} bytes", f"all contents, decoded length {n}", ["hex::decode -> vector of that length", "ring pbkdf2/aead -> arbitrary outcome (FFI)", "String::from_utf8 -> Ok"])
                for n in (0, 7, 8, 19, 20, 21, 36, 42)
            ] + [
                kh("c17_bootstrap_addr_update_status_never_overflows", "BootstrapAddr::update_status + failure_rate over the full u32 counter range", "all u32 pairs"),
                kh("c17_bootstrap_addr_sync_never_overflows", "BootstrapAddr::sync + failure_rate", "all u32 quadruples"),
                kh("c17_bootstrap_addr_failure_rate_never_overflows", "BootstrapAddr::failure_rate", "all u32 pairs"),
            ] + [
                kh(f"c17_str_to_addr_decoded_len{n}", f"autonomi str_to_addr when the text decodes to {n} bytes", f"decoded length {n}", ["hex::decode -> vector of that length"])
                for n in (0, 31, 32, 33)
            ]},
            {"engine": "K", "crate": "k_proto", "harnesses": [
                kh(f"c12_decoders_never_panic_len{n}", f"record bytes: from_record / is_record_of_type_chunk / try_deserialize_record on {n}-byte records (shared with C12)", f"all contents, length {n}", K_STUBS_TRACING + ["rmp_serde::from_slice -> Err"])
                for n in (0, 1, 2, 3, 4)
            ] + [
                kh("c12_kind_decoder_inverse_of_encoder", "RecordKind decoder on every u32 tag: a kind or an error, never a panic (shared with C12)", "all 2^32 tag values"),
            ]},
            {"engine": "D", "crate": "d_boot", "harnesses": [
                {"name": "c18_untrusted_file", "covers": ["loaded"], "quick": {"max_paths": 10000, "timeout": 300}},
                {"name": "c18_corrupt", "covers": ["loaded_corrupt"], "quick": {"max_paths": 1000, "timeout": 300}},
            ]},
            {"engine": "K", "crate": "k_evm", "harnesses": [
                kh("c16_from_str_len1", "AttoTokens::from_str never panics on any 1-character ASCII string (shared with C16, which goes to length 3/4)", "length 1", quick=600),
            ]},
        ],
        "assumptions": K_ASSUMPTIONS + [
            "items of ant-node-manager (PortRange, increment_port_option, check_port_availability), ant-cli (decrypt_private_key), ant-bootstrap (BootstrapAddr counters) and autonomi (str_to_addr) are transplanted verbatim into the harness crate next to local shims (eyre!/Result, ring, SystemTime): their own crates pull color_eyre thread-locals / ring FFI, which Kani cannot compile or reach",
            "hex::decode is replaced by a vector of the stated concrete length with symbolic bytes: the slicing/offset logic after decoding is what is decided",
        ],
        "bounds": {"quick": "decoded lengths around every slicing boundary (0,1,31,32,33,79,80,81 / 0,7,8,19,20,21,36,42 / 0,31,32,33); full integer ranges for the port and counter arithmetic; strings of length <= 2",
                   "thorough": "port range strings of length 3"},
        "outside": ["serde_json parsing of registry and cache files (library; not reachable for CBMC)", "multiaddr text parsing (library)", "round trips through hex::encode/decode themselves", "non-UTF-8 plaintext inside an authenticated wallet blob"],
    },
    "C18": {
        "parts": [
            {"engine": "D", "crate": "d_boot", "harnesses": [
                {"name": "c18_ops", "covers": ["add_new", "cleanup", "status_of_an_untracked_address"], "quick": {"max_paths": 200000, "timeout": 900}, "thorough": {"env": {"C18_OPS": 4}, "max_paths": 3000000, "timeout": 3400}},
                {"name": "c18_shapes", "covers": ["stored", "refused"], "quick": {"max_paths": 1000, "timeout": 300}},
                {"name": "c18_sync_flush", "covers": ["merge_with_cleanup", "merge_without_cleanup", "overlap"], "quick": {"max_paths": 100000, "timeout": 600}},
                {"name": "c18_concurrent_flush", "covers": ["interleaved", "not_interleaved"], "quick": {"max_paths": 10000, "timeout": 600}},
                {"name": "c18_load_bulk_file", "covers": ["bulk_loaded", "all_three_last_seen_equal"], "quick": {"max_paths": 10000, "timeout": 600}},
                {"name": "c18_corrupt", "covers": ["loaded_corrupt"], "quick": {"max_paths": 1000, "timeout": 300}},
                {"name": "c18_untrusted_file", "covers": ["loaded"], "quick": {"max_paths": 10000, "timeout": 300}},
            ]},
        ],
        "assumptions": [
            "engine D on transplanted ant-bootstrap/src/cache_store.rs plus the BootstrapAddr/BootstrapAddresses/craft_valid_multiaddr/multiaddr_get_peer_id items of lib.rs and BootstrapCacheConfig of config.rs; real libp2p Multiaddr/PeerId and real serde_json",
            "SystemTime/Duration are symbolic 64-bit seconds (the clock is constant within an operation and advances by a symbolic amount when the harness says so); timestamps are serialised as the identity of their term",
            "atomic-write-file is modelled as 'content appears at the path all at once on commit' over the in-memory file system; std HashMap with a fixed hasher state",
        ],
        "bounds": {"quick": "3 operations from {add (3 peers x quic/ws x 2 ports), status update, remove, clean-up, time passes} with max_peers and max_addrs_per_peer in {1,2}; 10 multiaddress shapes; merge of <=3 in-memory with <=2 on-disk addresses with and without clean-up; 6 corrupt file contents",
                   "thorough": "4 operations"},
        "outside": ["atomicity of the real rename in atomic-write-file and interleavings of several OS processes flushing one file (not encodable; not claimed)", "multiaddr text parsing (library)", "u32 counter overflow (C17 harnesses)"],
    },
    "C10": {
        "parts": [
            {"engine": "D", "crate": "d_net", "harnesses": [
                {"name": "c10_put_step", "covers": ["below_capacity", "at_capacity_accept", "at_capacity_refuse", "reoffered_after_refusal", "reoffered_same_bytes_after_refusal"],
                 "quick": {"max_paths": 20000, "timeout": 600}, "thorough": {"env": {"C10_MAXCAP": 4}, "max_paths": 1000000, "timeout": 3400, "seeds": [0, 1]}},
                {"name": "c10_burst", "covers": ["both_accepted"],
                 "quick": {"max_paths": 20000, "timeout": 600}, "thorough": {"env": {"C10_MAXCAP": 4, "C10_BURST": 3}, "max_paths": 1000000, "timeout": 3400}},
                {"name": "c10_cleanup", "covers": ["applies", "not_applicable", "removed_some", "removed_a_written_record"],
                 "quick": {"max_paths": 20000, "timeout": 600}},
                {"name": "c10_metrics", "covers": ["with_range", "without_range", "held_key_updated_after_range_was_set", "held_key_removed_after_range_was_set", "new_key_put_after_range_was_set"],
                 "quick": {"max_paths": 50000, "timeout": 600}},
            ]},
        ],
        "assumptions": COMMON_D_ASSUMPTIONS + [
            "file system is the in-memory shim (write/read/remove on a path->bytes map)",
            "record encryption uses the real aes-gcm-siv/hkdf crates when ant-node's default features forward encrypt-records",
        ],
        "bounds": {"quick": "capacity 1..3, <=3 held keys, 1 operation, 256-bit symbolic hashes",
                   "thorough": "as quick plus bursts of 2 unacknowledged writes, clean-up across the threshold, restart"},
        "outside": ["more keys/steps than the bound", "real disk", "SHA-256 itself"],
    },
}

# thorough tier of the properties whose harnesses have no larger bound of their own: the same harnesses under further
# hasher seeds (other iteration orders of the std HashMap / HashSet inside the transplanted code)
for _pid in ("C03", "C04", "C07", "C09", "C11", "C15"):
    for _part in PROPS[_pid]["parts"]:
        if _part["engine"] != "D":
            continue
        for _h in _part["harnesses"]:
            if "thorough" not in _h and "quick" in _h:
                _t = dict(_h["quick"])
                _t["seeds"] = [0, 1, 2]
                _t["timeout"] = max(_t.get("timeout", 600), 1200)
                _h["thorough"] = _t
    PROPS[_pid]["bounds"].setdefault("thorough", "the quick bounds under three hasher seeds (other iteration orders of the hash maps inside the transplanted code)")
