"""Which harnesses decide which property, with the bounds of each tier."""

COMMON_D_ASSUMPTIONS = [
    "engine D: the transplanted source is compiled by rustc and executed natively under symrt; std HashMap/HashSet are the real std containers with a fixed (seed-selected) hasher state so that re-execution is deterministic",
    "hashes (SHA-256 of key bytes / SHA-3 of content) are a collision-free function on the finite key universe: H[id] is a free 256-bit symbolic value per id, pairwise distinct",
    "convert_distance_to_u256 is the identity on the 256-bit distance (checked separately under C11)",
    "tracing macros are no-ops; spawn pushes a task on a list that the harness runs; mpsc channels are unbounded recorders",
]

STORE_ASSUMPTIONS = COMMON_D_ASSUMPTIONS + [
    "file system is the in-memory shim (write/read/remove on a path->bytes map); a torn write leaves a strict prefix of the new content",
    "record encryption uses the real aes-gcm-siv/hkdf crates iff ant-node's default features forward encrypt-records to ant-networking (read from ant-node/Cargo.toml on every run)",
    "background tasks of one key run in issue order (the property's own wording); tasks of different keys in any order",
    "same node identity after restart => same encryption seed (driver.rs derives it from the keypair; not re-verified)",
]

PROPS = {
    "C01": {
        "parts": [
            {"engine": "D", "crate": "d_net", "harnesses": [
                {"name": "c01_history", "id": "c01_history_2keys_2ops", "covers": ["settled", "settled_value", "settled_removed", "get_returned_value"],
                 "quick": {"env": {"C01_KEYS": 2, "C01_OPS": 2}, "max_paths": 100000, "timeout": 900},
                 "thorough": {"env": {"C01_KEYS": 2, "C01_OPS": 3}, "max_paths": 1000000, "timeout": 3000}},
                {"name": "c01_history", "id": "c01_history_1key_3ops", "covers": ["settled", "settled_value", "settled_removed"],
                 "quick": {"env": {"C01_KEYS": 1, "C01_OPS": 3}, "max_paths": 100000, "timeout": 900},
                 "thorough": {"env": {"C01_KEYS": 3, "C01_OPS": 2}, "max_paths": 1000000, "timeout": 3000}},
            ]},
        ],
        "assumptions": STORE_ASSUMPTIONS + ["disk writes succeed (write failures are RemoveFailedLocalRecord's subject, not part of this claim)",
                                            "cache timestamps are a symbolic non-decreasing 64-bit clock (equal timestamps allowed)"],
        "bounds": {"quick": "2 keys x 2 operations and 1 key x 3 operations from {put v0/v1, remove, get}, cache size 1..2, every interleaving of background tasks/notifications between operations",
                   "thorough": "2 keys x 3 operations and 3 keys x 2 operations"},
        "outside": ["longer histories, more keys", "real disk and OS caching", "same-key task reordering (outside the property's wording)", "capacity effects (C10)"],
    },
    "C02": {
        "parts": [
            {"engine": "D", "crate": "d_net", "harnesses": [
                {"name": "c02_crash", "id": "c02_crash_2keys_2ops", "covers": ["restarted", "torn_write", "durable_value", "durable_removed", "served_after_restart"],
                 "quick": {"env": {"C02_KEYS": 2, "C02_OPS": 2}, "max_paths": 200000, "timeout": 900},
                 "thorough": {"env": {"C02_KEYS": 2, "C02_OPS": 3}, "max_paths": 3000000, "timeout": 3400}},
            ]},
        ],
        "assumptions": STORE_ASSUMPTIONS + ["crash model: a subset of pending tasks (FIFO per key) has run; at most one write is torn at an arbitrary byte prefix; notifications are lost"],
        "bounds": {"quick": "2 keys x 2 operations from {put v0/v1, remove}, every subset/order of background tasks, every prefix length of one torn record file",
                   "thorough": "2 keys x 3 operations"},
        "outside": ["real fsync / page cache behaviour", "more keys and operations", "several torn files at once"],
    },
    "C08": {
        "parts": [
            {"engine": "D", "crate": "d_net", "harnesses": [
                {"name": "c08_add_multi", "covers": ["scheduled_some", "at_limit", "queued_and_scheduled"], "quick": {"max_paths": 100000, "timeout": 900}},
                {"name": "c08_add_single", "covers": ["single_started", "single_not_started"], "quick": {"max_paths": 100000, "timeout": 600}},
                {"name": "c08_expiry", "covers": ["some_expired", "none_expired", "dropped_queue_of_failed_holder"], "quick": {"max_paths": 100000, "timeout": 600}},
                {"name": "c08_complete", "covers": ["arrival", "early"], "quick": {"max_paths": 100000, "timeout": 600}},
                {"name": "c08_farthest", "covers": ["kept", "dropped"], "quick": {"max_paths": 100000, "timeout": 600}},
                {"name": "c08_progress", "covers": ["done"], "quick": {"max_paths": 100000, "timeout": 900}},
            ]},
        ],
        "assumptions": COMMON_D_ASSUMPTIONS + [
            "the parallel-fetch limit K_VALUE (libp2p: 20) is replaced by 3 in the harness crate; the property is 'never exceeds the limit'",
            "clock: one symbolic instant per fetcher call (time does not advance inside a call); the harness advances it by a symbolic amount between calls",
            "H[self] = 0 without loss of generality (all distances are taken from the node itself)",
            "pre-states are built directly in the fetcher's private maps and assumed to satisfy: deadlines of live entries in the future, nothing queued or in flight beyond the farthest acceptable distance",
        ],
        "bounds": {"quick": "one fetcher call from states with <=4 in-flight and <=3 queued entries over a universe of <=6 keys, 3 record versions, 3 holders; advertisement lists of 1..3 keys; 2 rounds for progress",
                   "thorough": "same harnesses, other hasher seeds"},
        "outside": ["longer call sequences (covered only through the per-call obligations)", "unbounded liveness", "libp2p's K_VALUE = 20 itself"],
    },
    "C09": {
        "parts": [
            {"engine": "D", "crate": "d_net", "harnesses": [
                {"name": "c09_advertise", "covers": ["ran", "skipped_by_min_interval", "recently_served_peer_skipped"], "quick": {"max_paths": 100000, "timeout": 900}},
                {"name": "c09_receive", "covers": ["eligible_sender", "ineligible_sender"], "quick": {"max_paths": 100000, "timeout": 600}},
                {"name": "c09_divergent_version", "covers": ["ran"], "quick": {"max_paths": 1000, "timeout": 600}},
            ]},
        ],
        "assumptions": COMMON_D_ASSUMPTIONS + [
            "libp2p's get_closest_local_peers is modelled by its contract (all routing-table peers ascending by XOR distance to the key)",
            "claimed as per-round obligations only (advertise everything to the candidates; act only on lists from the K closest; a divergent version of a held key is scheduled); convergence over rounds is not claimed",
        ],
        "bounds": {"quick": "routing table of 6 (advertise) / 3 (receive) peers, <=2 held records, symbolic range, clock and served-until timestamps"},
        "outside": ["multi-round convergence between two real nodes", "message loss and churn", "acceptance of the fetched record (C04/C07 obligations)"],
    },
    "C11": {
        "parts": [
            {"engine": "D", "crate": "d_net", "harnesses": [
                {"name": "c11_candidates", "covers": ["by_range", "close_group_fallback"], "quick": {"max_paths": 100000, "timeout": 900}},
                {"name": "c11_sort_peers", "covers": ["ok", "too_few"], "quick": {"max_paths": 100000, "timeout": 900}},
                {"name": "c11_calc_closest", "covers": ["range_filter", "k_nearest"], "quick": {"max_paths": 100000, "timeout": 900}},
            ]},
        ],
        "assumptions": COMMON_D_ASSUMPTIONS + [
            "distance(a,b) = H[a] xor H[b] on 256-bit values is libp2p's definition (trusted); the reference address has H = 0 without loss of generality",
        ],
        "bounds": {"quick": "3..6 peers with fully symbolic 256-bit hashes (6-peer case: order of three names fixed), requested counts 2/5/7, symbolic range"},
        "outside": ["SHA-256 and libp2p's xor themselves", "convert_distance_to_u256's decimal round trip through the uint and ruint libraries (see K harnesses)"],
    },
    "C10": {
        "parts": [
            {"engine": "D", "crate": "d_net", "harnesses": [
                {"name": "c10_put_step", "covers": ["below_capacity", "at_capacity_accept", "at_capacity_refuse"],
                 "quick": {"max_paths": 20000, "timeout": 600}, "thorough": {"max_paths": 200000, "timeout": 3000}},
                {"name": "c10_burst", "covers": ["both_accepted"],
                 "quick": {"max_paths": 20000, "timeout": 600}},
                {"name": "c10_cleanup", "covers": ["applies", "not_applicable", "removed_some"],
                 "quick": {"max_paths": 20000, "timeout": 600}},
                {"name": "c10_metrics", "covers": ["with_range", "without_range"],
                 "quick": {"max_paths": 50000, "timeout": 600}},
            ]},
        ],
        "assumptions": COMMON_D_ASSUMPTIONS + [
            "file system is the in-memory shim (write/read/remove on a path->bytes map)",
            "record encryption uses the real aes-gcm-siv/hkdf crates when ant-node's default features forward encrypt-records",
        ],
        "bounds": {"quick": "capacity 1..3, <=3 held keys, 1 operation, 256-bit symbolic hashes",
                   "thorough": "as quick plus bursts of 2 unacknowledged writes, clean-up across the threshold, restart"},
        "outside": ["more keys/steps than the bound", "real disk", "SHA-256 itself"],
    },
}
