#!/bin/bash
# usage: engine/run_all.sh [quick|thorough]  -- runs every claimed check on /repo's current tree, one line per property
tier=${1:-quick}
cd "$(dirname "$0")/.."
for p in $(python3 -c "import json;print(' '.join(c['property_id'] if 'property_id' in c else c['id'] for c in json.load(open('MANIFEST.json'))['checks']))" 2>/dev/null || echo C01 C02 C03 C04 C05 C06 C07 C08 C09 C10 C11 C12 C13 C15 C16 C17 C18); do
  out=$(./check $p --tier $tier 2>&1); code=$?
  echo "$p exit=$code $(echo "$out" | grep -E '^(OK|VIOLATION|INCONCLUSIVE|UNCONFIRMED)' | head -3 | cut -c1-200 | tr '\n' ' ')"
done
