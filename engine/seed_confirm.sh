#!/bin/bash
# usage: confirm.sh <sNN> <crate> [extra cargo test args]   -- worktree has patch+demo applied
s=$1; crate=$2; shift 2
cd /tmp/wt/$s || exit 3
export CARGO_TARGET_DIR=/tmp/wt/$s/target
log=/tmp/wt/$s/SEED/confirm.log
{
echo "== $(date -u +%FT%TZ) confirm $s crate=$crate (patch.diff + demo.diff applied)"
git status --short | head
cargo test --offline -j 6 -p $crate "$@" --no-fail-fast 2>&1 | grep -E "^test |test result|panicked|FAILED|failed" | grep -v "\.\.\. ok" | head -30
echo "== patch reverted (demo only)"
git apply -R SEED/patch.diff || echo "REVERT FAILED"
cargo test --offline -j 6 -p $crate "$@" --no-fail-fast 2>&1 | grep -E "^test |test result|panicked|FAILED|failed" | grep -v "\.\.\. ok" | head -30
git apply SEED/patch.diff
echo "== patch only: existing tests"
git apply -R SEED/demo.diff || echo "DEMO REVERT FAILED"
cargo test --offline -j 6 -p $crate "$@" --no-fail-fast 2>&1 | grep -E "test result|FAILED|failed" | head -10
git apply SEED/demo.diff
} > $log 2>&1
cat $log
