#!/bin/bash
# usage: seed_eval.sh <patch.diff> <Cxx> [<Cyy> ...]   -- applies the patch to /repo, runs the checks, reverts
patch=$1; shift
cd /repo || exit 3
if ! git diff --quiet; then echo "/repo is dirty"; exit 3; fi
git apply "$patch" || { echo "patch does not apply"; exit 3; }
# evidence written while a seeded change is applied does not describe the unchanged tree: keep the committed files
bk=$(mktemp -d /verif/target/evidence_backup.XXXX); cp -r /verif/evidence/. $bk/ 2>/dev/null
for p in "$@"; do
  echo "=== $p with $(basename $(dirname $patch))"
  (cd /verif && timeout 3000 ./check $p --tier ${TIER:-quick} 2>&1 | grep -E "VIOLATION|KNOWN|OK property|INCONCLUSIVE|UNCONFIRMED|counterexample|note:" | cut -c1-260 | head -14; echo "exit=${PIPESTATUS[0]}")
done
git checkout -- . 
rm -rf /verif/evidence/replays; cp -r $bk/. /verif/evidence/; rm -rf $bk
