#!/bin/bash
# keep.sh <sNN> <dirname>
s=$1; d=/verif/seeded/$2
mkdir -p $d && cp /tmp/wt/$s/SEED/patch.diff /tmp/wt/$s/SEED/demo.diff /tmp/wt/$s/SEED/AGENT_README.md /tmp/wt/$s/SEED/confirm.log $d/ 2>&1
ls $d
