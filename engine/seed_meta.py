import json,sys
d,prop,needs,caught,missed,first=sys.argv[1:7]
m={"property":prop,"needs":needs,"caught_by":[x for x in caught.split("|") if x],"missed_by":[x for x in missed.split("|") if x],"first_run":first,
"what_i_ran":"agent's demo + crate unit tests re-run in the scratch worktree in three states: patch+demo, demo only, patch only (confirm.log); then engine/seed_eval.sh <patch> <checks>",
"patch":"patch.diff","demonstration":"demo.diff (see AGENT_README.md for commands)"}
json.dump(m,open(f"/verif/seeded/{d}/meta.json","w"),indent=1)
print("ok",d)
