import json,sys
props={json.loads(l)['id']:json.loads(l) for l in open('/verif/properties.jsonl')}
t=open('/tmp/wt/prompts/template.txt').read()
def text(p):
    for k in ('statement','text','description'):
        if k in p: return p[k]
    raise SystemExit(p.keys())
sid,pid=sys.argv[1],sys.argv[2]
focus=sys.argv[3] if len(sys.argv)>3 else ''
p=props[pid]
out=t.replace('@WT@','/tmp/wt/'+sid).replace('@PROP@',p.get('title','')+'. '+text(p)).replace('@FOCUS@',focus)
open('/tmp/wt/prompts/%s.txt'%sid,'w').write(out)
print(out)
