import os, sys, subprocess
sys.path.insert(0, os.path.dirname(os.path.abspath(__file__)))
import props
from props_table import PROPS
crates = []
for pid, spec in PROPS.items():
    for part in spec["parts"]:
        if part["engine"] == "D" and part["crate"] not in crates:
            crates.append(part["crate"])
for c in crates:
    gen = props.gen_for(c)
    feats = ["encrypt-records"] if c == "d_net" and gen.get("encrypt_records") else []
    b = props.build_crate(c, feats)
    os.unlink(b)
    print("built", c, feats)
kcrates = []
for pid, spec in PROPS.items():
    for part in spec["parts"]:
        if part["engine"] == "K" and part["crate"] not in kcrates:
            kcrates.append(part["crate"])
if kcrates:
    import kani_run
    for c in kcrates:
        kani_run.prebuild(c)
        print("prebuilt", c)
