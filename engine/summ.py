import json,sys
for r in json.load(sys.stdin):
    print(r['harness'], {k:r[k] for k in ['paths','pruned','exhausted','solver_queries','solver_time_s','wall_s','inconclusive','choice_forks','fallback_queries','fallback_time_s']}, 'covers',r['covers'])
    seen=set()
    for v in r['violations']:
        if v['check'] in seen: continue
        seen.add(v['check'])
        print('  VIOL', v['check'], v['detail'][:160], 'replayed=',v['replayed']);
        for n in v['notes']: print('      ', n)
        print('      ', {k:val for k,val in list(v['model'].items())[:6]})
