//! Association-list stand-ins for HashMap / HashSet whose key equality is `PartialEq::eq`.
//! With keys that wrap `SymU`, `==` asks the solver and forks, so "is this the same peer /
//! the same content as one seen before?" is partitioned by the solver instead of being
//! enumerated by the harness.  Insertion order is iteration order (deterministic).
use std::fmt::Debug;

#[derive(Clone)]
pub struct HashMap<K, V>(pub Vec<(K, V)>);
#[derive(Clone)]
pub struct HashSet<K>(pub Vec<K>);

impl<K, V> Default for HashMap<K, V> {
    fn default() -> Self {
        HashMap(Vec::new())
    }
}
impl<K> Default for HashSet<K> {
    fn default() -> Self {
        HashSet(Vec::new())
    }
}
impl<K: Debug, V: Debug> Debug for HashMap<K, V> {
    fn fmt(&self, f: &mut std::fmt::Formatter<'_>) -> std::fmt::Result {
        f.debug_map().entries(self.0.iter().map(|(k, v)| (k, v))).finish()
    }
}
impl<K: Debug> Debug for HashSet<K> {
    fn fmt(&self, f: &mut std::fmt::Formatter<'_>) -> std::fmt::Result {
        f.debug_set().entries(self.0.iter()).finish()
    }
}

pub enum Entry<'a, K, V> {
    Occupied(OccupiedEntry<'a, K, V>),
    Vacant(VacantEntry<'a, K, V>),
}
pub struct OccupiedEntry<'a, K, V> {
    map: &'a mut HashMap<K, V>,
    idx: usize,
}
pub struct VacantEntry<'a, K, V> {
    map: &'a mut HashMap<K, V>,
    key: K,
}
impl<'a, K, V> OccupiedEntry<'a, K, V> {
    pub fn get(&self) -> &V {
        &self.map.0[self.idx].1
    }
    pub fn get_mut(&mut self) -> &mut V {
        &mut self.map.0[self.idx].1
    }
    pub fn into_mut(self) -> &'a mut V {
        &mut self.map.0[self.idx].1
    }
    pub fn remove(self) -> V {
        self.map.0.remove(self.idx).1
    }
    pub fn insert(&mut self, v: V) -> V {
        std::mem::replace(&mut self.map.0[self.idx].1, v)
    }
    pub fn key(&self) -> &K {
        &self.map.0[self.idx].0
    }
}
impl<'a, K, V> VacantEntry<'a, K, V> {
    pub fn insert(self, v: V) -> &'a mut V {
        self.map.0.push((self.key, v));
        &mut self.map.0.last_mut().unwrap().1
    }
}
impl<'a, K, V> Entry<'a, K, V> {
    pub fn or_insert(self, v: V) -> &'a mut V {
        match self {
            Entry::Occupied(o) => o.into_mut(),
            Entry::Vacant(va) => va.insert(v),
        }
    }
    pub fn or_default(self) -> &'a mut V
    where
        V: Default,
    {
        self.or_insert(V::default())
    }
    pub fn or_insert_with<F: FnOnce() -> V>(self, f: F) -> &'a mut V {
        match self {
            Entry::Occupied(o) => o.into_mut(),
            Entry::Vacant(va) => va.insert(f()),
        }
    }
    pub fn or_insert_with_key<F: FnOnce(&K) -> V>(self, f: F) -> &'a mut V {
        match self {
            Entry::Occupied(o) => o.into_mut(),
            Entry::Vacant(va) => {
                let v = f(&va.key);
                va.insert(v)
            }
        }
    }
    pub fn and_modify<F: FnOnce(&mut V)>(mut self, f: F) -> Self {
        if let Entry::Occupied(o) = &mut self {
            f(o.get_mut());
        }
        self
    }
    pub fn key(&self) -> &K {
        match self {
            Entry::Occupied(o) => o.key(),
            Entry::Vacant(va) => &va.key,
        }
    }
}
impl<'a, K, V> VacantEntry<'a, K, V> {
    pub fn key(&self) -> &K {
        &self.key
    }
    pub fn into_key(self) -> K {
        self.key
    }
}

impl<K: PartialEq, V> HashMap<K, V> {
    pub fn new() -> Self {
        HashMap(Vec::new())
    }
    fn find(&self, k: &K) -> Option<usize> {
        self.0.iter().position(|(kk, _)| kk == k)
    }
    pub fn len(&self) -> usize {
        self.0.len()
    }
    pub fn is_empty(&self) -> bool {
        self.0.is_empty()
    }
    pub fn entry(&mut self, k: K) -> Entry<'_, K, V> {
        match self.find(&k) {
            Some(idx) => Entry::Occupied(OccupiedEntry { map: self, idx }),
            None => Entry::Vacant(VacantEntry { map: self, key: k }),
        }
    }
    pub fn insert(&mut self, k: K, v: V) -> Option<V> {
        match self.find(&k) {
            Some(i) => Some(std::mem::replace(&mut self.0[i].1, v)),
            None => {
                self.0.push((k, v));
                None
            }
        }
    }
    pub fn get(&self, k: &K) -> Option<&V> {
        self.find(k).map(|i| &self.0[i].1)
    }
    pub fn get_mut(&mut self, k: &K) -> Option<&mut V> {
        self.find(k).map(move |i| &mut self.0[i].1)
    }
    pub fn contains_key(&self, k: &K) -> bool {
        self.find(k).is_some()
    }
    pub fn remove(&mut self, k: &K) -> Option<V> {
        self.find(k).map(|i| self.0.remove(i).1)
    }
    pub fn iter(&self) -> impl Iterator<Item = (&K, &V)> {
        self.0.iter().map(|(k, v)| (k, v))
    }
    pub fn iter_mut(&mut self) -> impl Iterator<Item = (&K, &mut V)> {
        self.0.iter_mut().map(|(k, v)| (&*k, v))
    }
    pub fn values(&self) -> impl Iterator<Item = &V> {
        self.0.iter().map(|(_, v)| v)
    }
    pub fn values_mut(&mut self) -> impl Iterator<Item = &mut V> {
        self.0.iter_mut().map(|(_, v)| v)
    }
    pub fn keys(&self) -> impl Iterator<Item = &K> {
        self.0.iter().map(|(k, _)| k)
    }
    pub fn clear(&mut self) {
        self.0.clear()
    }
    pub fn retain<F: FnMut(&K, &mut V) -> bool>(&mut self, mut f: F) {
        self.0.retain_mut(|(k, v)| f(k, v))
    }
    pub fn remove_entry(&mut self, k: &K) -> Option<(K, V)> {
        self.find(k).map(|i| self.0.remove(i))
    }
    pub fn get_key_value(&self, k: &K) -> Option<(&K, &V)> {
        self.find(k).map(|i| (&self.0[i].0, &self.0[i].1))
    }
    pub fn drain(&mut self) -> std::vec::Drain<'_, (K, V)> {
        self.0.drain(..)
    }
    pub fn into_keys(self) -> impl Iterator<Item = K> {
        self.0.into_iter().map(|(k, _)| k)
    }
    pub fn into_values(self) -> impl Iterator<Item = V> {
        self.0.into_iter().map(|(_, v)| v)
    }
    pub fn with_capacity(_n: usize) -> Self {
        HashMap(Vec::new())
    }
}
impl<'a, K, V> IntoIterator for &'a HashMap<K, V> {
    type Item = (&'a K, &'a V);
    type IntoIter = std::iter::Map<std::slice::Iter<'a, (K, V)>, fn(&'a (K, V)) -> (&'a K, &'a V)>;
    fn into_iter(self) -> Self::IntoIter {
        fn split<'b, K, V>(e: &'b (K, V)) -> (&'b K, &'b V) {
            (&e.0, &e.1)
        }
        self.0.iter().map(split as fn(&'a (K, V)) -> (&'a K, &'a V))
    }
}
impl<K, V> IntoIterator for HashMap<K, V> {
    type Item = (K, V);
    type IntoIter = std::vec::IntoIter<(K, V)>;
    fn into_iter(self) -> Self::IntoIter {
        self.0.into_iter()
    }
}

impl<K: PartialEq> HashSet<K> {
    pub fn new() -> Self {
        HashSet(Vec::new())
    }
    pub fn len(&self) -> usize {
        self.0.len()
    }
    pub fn is_empty(&self) -> bool {
        self.0.is_empty()
    }
    pub fn contains(&self, k: &K) -> bool {
        self.0.iter().any(|x| x == k)
    }
    pub fn insert(&mut self, k: K) -> bool {
        if self.contains(&k) {
            false
        } else {
            self.0.push(k);
            true
        }
    }
    pub fn remove(&mut self, k: &K) -> bool {
        match self.0.iter().position(|x| x == k) {
            Some(i) => {
                self.0.remove(i);
                true
            }
            None => false,
        }
    }
    pub fn iter(&self) -> impl Iterator<Item = &K> {
        self.0.iter()
    }
    pub fn retain<F: FnMut(&K) -> bool>(&mut self, f: F) {
        self.0.retain(f)
    }
    pub fn clear(&mut self) {
        self.0.clear()
    }
    pub fn with_capacity(_n: usize) -> Self {
        HashSet(Vec::new())
    }
    pub fn extend<I: IntoIterator<Item = K>>(&mut self, it: I) {
        for k in it {
            let _ = self.insert(k);
        }
    }
    pub fn drain(&mut self) -> std::vec::Drain<'_, K> {
        self.0.drain(..)
    }
}
impl<'a, K> IntoIterator for &'a HashSet<K> {
    type Item = &'a K;
    type IntoIter = std::slice::Iter<'a, K>;
    fn into_iter(self) -> Self::IntoIter {
        self.0.iter()
    }
}
impl<K> IntoIterator for HashSet<K> {
    type Item = K;
    type IntoIter = std::vec::IntoIter<K>;
    fn into_iter(self) -> Self::IntoIter {
        self.0.into_iter()
    }
}

pub mod collections {
    pub use super::{HashMap, HashSet};
    pub use std::collections::{BTreeMap, BTreeSet, VecDeque};
    pub mod hash_map {
        pub use super::super::{Entry, HashMap, OccupiedEntry, VacantEntry};
    }
}

// construction / bulk-insert API of the std containers
impl<K: PartialEq, const N: usize> From<[K; N]> for HashSet<K> {
    fn from(a: [K; N]) -> Self {
        let mut s = HashSet(Vec::new());
        for k in a {
            let _ = s.insert(k);
        }
        s
    }
}
impl<K: PartialEq, V, const N: usize> From<[(K, V); N]> for HashMap<K, V> {
    fn from(a: [(K, V); N]) -> Self {
        let mut m = HashMap(Vec::new());
        for (k, v) in a {
            let _ = m.insert(k, v);
        }
        m
    }
}
impl<K: PartialEq> FromIterator<K> for HashSet<K> {
    fn from_iter<I: IntoIterator<Item = K>>(it: I) -> Self {
        let mut s = HashSet(Vec::new());
        for k in it {
            let _ = s.insert(k);
        }
        s
    }
}
impl<K: PartialEq, V> FromIterator<(K, V)> for HashMap<K, V> {
    fn from_iter<I: IntoIterator<Item = (K, V)>>(it: I) -> Self {
        let mut m = HashMap(Vec::new());
        for (k, v) in it {
            let _ = m.insert(k, v);
        }
        m
    }
}
impl<K: PartialEq, V> Extend<(K, V)> for HashMap<K, V> {
    fn extend<I: IntoIterator<Item = (K, V)>>(&mut self, it: I) {
        for (k, v) in it {
            let _ = self.insert(k, v);
        }
    }
}
