//! Deterministic stand-ins for std's HashMap / HashSet.
//! std's `RandomState` seeds every map differently, so iteration order changes
//! between re-executions of the same path prefix; the path explorer needs the
//! code under test to be deterministic.  These wrap the real std containers
//! with a fixed hasher state and forward everything else via Deref.
use std::borrow::Borrow;
use std::collections::hash_map::DefaultHasher;
use std::hash::Hash;
use std::ops::{Deref, DerefMut, Index};

/// fixed hasher state; `set_seed` (from VERIF_SEED) selects a different, still fixed, iteration order
#[derive(Clone, Default)]
pub struct Fixed;
static SEED: std::sync::atomic::AtomicU64 = std::sync::atomic::AtomicU64::new(0);
pub fn set_seed(s: u64) {
    SEED.store(s, std::sync::atomic::Ordering::Relaxed);
}
impl std::hash::BuildHasher for Fixed {
    type Hasher = DefaultHasher;
    fn build_hasher(&self) -> DefaultHasher {
        use std::hash::Hasher;
        let mut h = DefaultHasher::new();
        let s = SEED.load(std::sync::atomic::Ordering::Relaxed);
        if s != 0 {
            h.write_u64(s);
        }
        h
    }
}

pub struct HashMap<K, V>(pub std::collections::HashMap<K, V, Fixed>);
pub struct HashSet<K>(pub std::collections::HashSet<K, Fixed>);

impl<K, V> HashMap<K, V> {
    pub fn new() -> Self {
        HashMap(std::collections::HashMap::with_hasher(Fixed::default()))
    }
    pub fn with_capacity(n: usize) -> Self {
        HashMap(std::collections::HashMap::with_capacity_and_hasher(n, Fixed::default()))
    }
}
impl<K, V> Default for HashMap<K, V> {
    fn default() -> Self {
        Self::new()
    }
}
impl<K, V> Deref for HashMap<K, V> {
    type Target = std::collections::HashMap<K, V, Fixed>;
    fn deref(&self) -> &Self::Target {
        &self.0
    }
}
impl<K, V> DerefMut for HashMap<K, V> {
    fn deref_mut(&mut self) -> &mut Self::Target {
        &mut self.0
    }
}
impl<K: Clone, V: Clone> Clone for HashMap<K, V> {
    fn clone(&self) -> Self {
        HashMap(self.0.clone())
    }
}
impl<K: std::fmt::Debug, V: std::fmt::Debug> std::fmt::Debug for HashMap<K, V> {
    fn fmt(&self, f: &mut std::fmt::Formatter<'_>) -> std::fmt::Result {
        self.0.fmt(f)
    }
}
impl<K: Eq + Hash, V: PartialEq> PartialEq for HashMap<K, V> {
    fn eq(&self, o: &Self) -> bool {
        self.0 == o.0
    }
}
impl<K: Eq + Hash, V: Eq> Eq for HashMap<K, V> {}
impl<K: Eq + Hash, V> FromIterator<(K, V)> for HashMap<K, V> {
    fn from_iter<I: IntoIterator<Item = (K, V)>>(it: I) -> Self {
        let mut m = Self::new();
        m.0.extend(it);
        m
    }
}
impl<K: Eq + Hash, V> Extend<(K, V)> for HashMap<K, V> {
    fn extend<I: IntoIterator<Item = (K, V)>>(&mut self, it: I) {
        self.0.extend(it)
    }
}
impl<K, V> IntoIterator for HashMap<K, V> {
    type Item = (K, V);
    type IntoIter = std::collections::hash_map::IntoIter<K, V>;
    fn into_iter(self) -> Self::IntoIter {
        self.0.into_iter()
    }
}
impl<'a, K, V> IntoIterator for &'a HashMap<K, V> {
    type Item = (&'a K, &'a V);
    type IntoIter = std::collections::hash_map::Iter<'a, K, V>;
    fn into_iter(self) -> Self::IntoIter {
        self.0.iter()
    }
}
impl<'a, K, V> IntoIterator for &'a mut HashMap<K, V> {
    type Item = (&'a K, &'a mut V);
    type IntoIter = std::collections::hash_map::IterMut<'a, K, V>;
    fn into_iter(self) -> Self::IntoIter {
        self.0.iter_mut()
    }
}
impl<K: Eq + Hash + Borrow<Q>, Q: Eq + Hash + ?Sized, V> Index<&Q> for HashMap<K, V> {
    type Output = V;
    fn index(&self, k: &Q) -> &V {
        self.0.get(k).expect("no entry found for key")
    }
}
impl<K: Eq + Hash, V, const N: usize> From<[(K, V); N]> for HashMap<K, V> {
    fn from(a: [(K, V); N]) -> Self {
        a.into_iter().collect()
    }
}

impl<K> HashSet<K> {
    pub fn new() -> Self {
        HashSet(std::collections::HashSet::with_hasher(Fixed::default()))
    }
    pub fn with_capacity(n: usize) -> Self {
        HashSet(std::collections::HashSet::with_capacity_and_hasher(n, Fixed::default()))
    }
}
impl<K> Default for HashSet<K> {
    fn default() -> Self {
        Self::new()
    }
}
impl<K> Deref for HashSet<K> {
    type Target = std::collections::HashSet<K, Fixed>;
    fn deref(&self) -> &Self::Target {
        &self.0
    }
}
impl<K> DerefMut for HashSet<K> {
    fn deref_mut(&mut self) -> &mut Self::Target {
        &mut self.0
    }
}
impl<K: Clone> Clone for HashSet<K> {
    fn clone(&self) -> Self {
        HashSet(self.0.clone())
    }
}
impl<K: std::fmt::Debug> std::fmt::Debug for HashSet<K> {
    fn fmt(&self, f: &mut std::fmt::Formatter<'_>) -> std::fmt::Result {
        self.0.fmt(f)
    }
}
impl<K: Eq + Hash> PartialEq for HashSet<K> {
    fn eq(&self, o: &Self) -> bool {
        self.0 == o.0
    }
}
impl<K: Eq + Hash> Eq for HashSet<K> {}
impl<K: Eq + Hash> FromIterator<K> for HashSet<K> {
    fn from_iter<I: IntoIterator<Item = K>>(it: I) -> Self {
        let mut m = Self::new();
        m.0.extend(it);
        m
    }
}
impl<K: Eq + Hash> Extend<K> for HashSet<K> {
    fn extend<I: IntoIterator<Item = K>>(&mut self, it: I) {
        self.0.extend(it)
    }
}
impl<K> IntoIterator for HashSet<K> {
    type Item = K;
    type IntoIter = std::collections::hash_set::IntoIter<K>;
    fn into_iter(self) -> Self::IntoIter {
        self.0.into_iter()
    }
}
impl<'a, K> IntoIterator for &'a HashSet<K> {
    type Item = &'a K;
    type IntoIter = std::collections::hash_set::Iter<'a, K>;
    fn into_iter(self) -> Self::IntoIter {
        self.0.iter()
    }
}

/// module tree that a transplanted `use std::collections::{…}` is rerouted to
pub mod collections {
    pub use super::{HashMap, HashSet};
    pub use std::collections::{btree_map, btree_set, BTreeMap, BTreeSet, BinaryHeap, LinkedList, VecDeque};
    pub mod hash_map {
        pub use super::super::HashMap;
        pub use std::collections::hash_map::{DefaultHasher, Entry, OccupiedEntry, VacantEntry};
    }
    pub mod hash_set {
        pub use super::super::HashSet;
    }
}

impl<K: serde::Serialize + Eq + Hash, V: serde::Serialize> serde::Serialize for HashMap<K, V> {
    fn serialize<S: serde::Serializer>(&self, s: S) -> Result<S::Ok, S::Error> {
        self.0.serialize(s)
    }
}
impl<'de, K: serde::Deserialize<'de> + Eq + Hash, V: serde::Deserialize<'de>> serde::Deserialize<'de> for HashMap<K, V> {
    fn deserialize<D: serde::Deserializer<'de>>(d: D) -> Result<Self, D::Error> {
        Ok(HashMap(std::collections::HashMap::<K, V, Fixed>::deserialize(d)?))
    }
}
