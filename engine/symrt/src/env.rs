//! Environment shims shared by the harness crates: task list (spawn), recorder
//! channels, in-memory file system with crash points, symbolic clocks, and the
//! symbolic hash table H[id] used for XOR distances.
use crate::sym::SymU;
use std::cell::RefCell;
use std::collections::{BTreeMap, VecDeque};
use std::future::Future;
use std::path::{Path, PathBuf};
use std::pin::Pin;
use std::rc::Rc;
use std::task::{Context, Poll, RawWaker, RawWakerVTable, Waker};

// ---------------- tasks ----------------
pub type Task = Pin<Box<dyn Future<Output = ()>>>;

thread_local! {
    static TASKS: RefCell<Vec<(u64, Option<Task>, String)>> = RefCell::new(Vec::new());
    static TASK_SEQ: RefCell<u64> = RefCell::new(0);
    static TASK_LABEL: RefCell<String> = RefCell::new(String::new());
    static FS: RefCell<BTreeMap<PathBuf, Vec<u8>>> = RefCell::new(BTreeMap::new());
    static FS_FAIL_WRITES: RefCell<bool> = RefCell::new(false);
    static FS_TORN: RefCell<Option<usize>> = RefCell::new(None);
    static HTABLE: RefCell<Vec<(Vec<u8>, SymU<256>)>> = RefCell::new(Vec::new());
    static CLOCK: RefCell<Option<SymU<64>>> = RefCell::new(None);
}

pub fn reset() {
    TASKS.with(|t| {
        // drop tasks without running them; forget to avoid destructor side effects on stale terms
        let v = std::mem::take(&mut *t.borrow_mut());
        drop(v);
    });
    TASK_SEQ.with(|s| *s.borrow_mut() = 0);
    TASK_LABEL.with(|s| s.borrow_mut().clear());
    FS.with(|f| f.borrow_mut().clear());
    FS_FAIL_WRITES.with(|f| *f.borrow_mut() = false);
    FS_TORN.with(|f| *f.borrow_mut() = None);
    HTABLE.with(|h| h.borrow_mut().clear());
    CLOCK.with(|c| *c.borrow_mut() = None);
}

/// forget every pending task (crash)
pub fn reset_tasks() {
    TASKS.with(|t| {
        let v = std::mem::take(&mut *t.borrow_mut());
        drop(v);
    });
}

pub struct JoinHandle;

/// label attached to the tasks spawned from now on (harness bookkeeping: which key they belong to)
pub fn set_task_label(l: &str) {
    TASK_LABEL.with(|s| *s.borrow_mut() = l.to_string());
}

pub fn spawn<F: Future + 'static>(f: F) -> JoinHandle {
    let id = TASK_SEQ.with(|s| {
        let mut s = s.borrow_mut();
        *s += 1;
        *s
    });
    let label = TASK_LABEL.with(|s| s.borrow().clone());
    let t: Task = Box::pin(async move {
        let _ = f.await;
    });
    TASKS.with(|ts| ts.borrow_mut().push((id, Some(t), label)));
    JoinHandle
}

pub fn pending_tasks() -> Vec<(u64, String)> {
    TASKS.with(|ts| ts.borrow().iter().map(|(i, _, l)| (*i, l.clone())).collect())
}

pub fn noop_waker() -> Waker {
    fn clone(_: *const ()) -> RawWaker {
        RawWaker::new(std::ptr::null(), &VTABLE)
    }
    fn noop(_: *const ()) {}
    static VTABLE: RawWakerVTable = RawWakerVTable::new(clone, noop, noop, noop);
    unsafe { Waker::from_raw(RawWaker::new(std::ptr::null(), &VTABLE)) }
}

/// poll the task with the given id once; returns true if it completed
pub fn run_task(id: u64) -> bool {
    let mut task = TASKS.with(|ts| {
        let mut ts = ts.borrow_mut();
        let idx = ts.iter().position(|(i, _, _)| *i == id).expect("no such task");
        ts[idx].1.take().expect("task is running")
    });
    let w = noop_waker();
    let mut cx = Context::from_waker(&w);
    let done = matches!(task.as_mut().poll(&mut cx), Poll::Ready(()));
    TASKS.with(|ts| {
        let mut ts = ts.borrow_mut();
        let idx = ts.iter().position(|(i, _, _)| *i == id).unwrap();
        if done {
            ts.remove(idx);
        } else {
            ts[idx].1 = Some(task);
        }
    });
    done
}

/// drop a pending task without running it (crash before it ran)
pub fn drop_task(id: u64) {
    TASKS.with(|ts| ts.borrow_mut().retain(|(i, _, _)| *i != id));
}

/// run all pending tasks in FIFO order until none is left
pub fn run_all_tasks() {
    loop {
        let first = TASKS.with(|ts| ts.borrow().first().map(|t| t.0));
        match first {
            Some(id) => {
                let mut guard = 0;
                while !run_task(id) {
                    guard += 1;
                    assert!(guard < 1000, "task never completes");
                }
            }
            None => break,
        }
    }
}

pub fn block_on<F: Future>(f: F) -> F::Output {
    let mut f = Box::pin(f);
    let w = noop_waker();
    let mut cx = Context::from_waker(&w);
    let mut guard = 0;
    loop {
        if let Poll::Ready(v) = f.as_mut().poll(&mut cx) {
            return v;
        }
        guard += 1;
        assert!(guard < 10_000, "block_on: future never completes");
    }
}

/// future that returns Pending exactly once
pub struct YieldNow(bool);
pub fn yield_now() -> YieldNow {
    YieldNow(false)
}
impl Future for YieldNow {
    type Output = ();
    fn poll(mut self: Pin<&mut Self>, _cx: &mut Context<'_>) -> Poll<()> {
        if self.0 {
            Poll::Ready(())
        } else {
            self.0 = true;
            Poll::Pending
        }
    }
}

// ---------------- recorder channels ----------------
pub mod mpsc {
    use super::*;
    pub struct Sender<T>(pub Rc<RefCell<VecDeque<T>>>, pub Rc<RefCell<bool>>);
    pub struct Receiver<T>(pub Rc<RefCell<VecDeque<T>>>, pub Rc<RefCell<bool>>);
    impl<T> Clone for Sender<T> {
        fn clone(&self) -> Self {
            Sender(self.0.clone(), self.1.clone())
        }
    }
    impl<T> std::fmt::Debug for Sender<T> {
        fn fmt(&self, f: &mut std::fmt::Formatter<'_>) -> std::fmt::Result {
            write!(f, "Sender")
        }
    }
    pub mod error {
        #[derive(Debug)]
        pub struct SendError<T>(pub T);
        impl<T> std::fmt::Display for SendError<T> {
            fn fmt(&self, f: &mut std::fmt::Formatter<'_>) -> std::fmt::Result {
                write!(f, "channel closed")
            }
        }
        #[derive(Debug)]
        pub enum TrySendError<T> {
            Full(T),
            Closed(T),
        }
    }
    pub fn channel<T>(_cap: usize) -> (Sender<T>, Receiver<T>) {
        let q = Rc::new(RefCell::new(VecDeque::new()));
        let closed = Rc::new(RefCell::new(false));
        (Sender(q.clone(), closed.clone()), Receiver(q, closed))
    }
    impl<T> Sender<T> {
        pub async fn send(&self, v: T) -> Result<(), error::SendError<T>> {
            if *self.1.borrow() {
                return Err(error::SendError(v));
            }
            self.0.borrow_mut().push_back(v);
            Ok(())
        }
        pub fn try_send(&self, v: T) -> Result<(), error::TrySendError<T>> {
            if *self.1.borrow() {
                return Err(error::TrySendError::Closed(v));
            }
            self.0.borrow_mut().push_back(v);
            Ok(())
        }
        pub fn capacity(&self) -> usize {
            1000
        }
        pub fn max_capacity(&self) -> usize {
            1000
        }
    }
    impl<T> Receiver<T> {
        pub fn try_recv(&mut self) -> Option<T> {
            self.0.borrow_mut().pop_front()
        }
        pub fn len(&self) -> usize {
            self.0.borrow().len()
        }
        pub fn is_empty(&self) -> bool {
            self.0.borrow().is_empty()
        }
        pub fn take_at(&mut self, i: usize) -> Option<T> {
            self.0.borrow_mut().remove(i)
        }
        pub fn close(&mut self) {
            *self.1.borrow_mut() = true;
        }
        pub fn with_queue<R>(&self, f: impl FnOnce(&VecDeque<T>) -> R) -> R {
            f(&self.0.borrow())
        }
    }
}

// ---------------- in-memory file system ----------------
pub mod fs {
    use super::*;
    use std::io;

    pub fn write<P: AsRef<Path>, C: AsRef<[u8]>>(p: P, c: C) -> io::Result<()> {
        if FS_FAIL_WRITES.with(|f| *f.borrow()) {
            return Err(io::Error::new(io::ErrorKind::Other, "injected write failure"));
        }
        let torn = FS_TORN.with(|f| f.borrow_mut().take());
        let bytes = c.as_ref();
        match torn {
            Some(n) => {
                // crash in the middle of this write: only a prefix reaches the file
                let n = n.min(bytes.len());
                FS.with(|f| f.borrow_mut().insert(p.as_ref().to_path_buf(), bytes[..n].to_vec()));
                std::panic::resume_unwind(Box::new(super::Crash));
            }
            None => {
                FS.with(|f| f.borrow_mut().insert(p.as_ref().to_path_buf(), bytes.to_vec()));
                Ok(())
            }
        }
    }
    pub fn read<P: AsRef<Path>>(p: P) -> io::Result<Vec<u8>> {
        FS.with(|f| f.borrow().get(p.as_ref()).cloned())
            .ok_or_else(|| io::Error::new(io::ErrorKind::NotFound, "no such file"))
    }
    pub fn remove_file<P: AsRef<Path>>(p: P) -> io::Result<()> {
        FS.with(|f| f.borrow_mut().remove(p.as_ref()))
            .map(|_| ())
            .ok_or_else(|| io::Error::new(io::ErrorKind::NotFound, "no such file"))
    }
    pub fn create_dir_all<P: AsRef<Path>>(_p: P) -> io::Result<()> {
        Ok(())
    }
    pub fn exists<P: AsRef<Path>>(p: P) -> bool {
        FS.with(|f| f.borrow().contains_key(p.as_ref()))
    }
    pub fn list() -> Vec<PathBuf> {
        FS.with(|f| f.borrow().keys().cloned().collect())
    }
    pub fn snapshot() -> BTreeMap<PathBuf, Vec<u8>> {
        FS.with(|f| f.borrow().clone())
    }
    pub fn restore(m: BTreeMap<PathBuf, Vec<u8>>) {
        FS.with(|f| *f.borrow_mut() = m);
    }
    pub fn set_fail_writes(b: bool) {
        FS_FAIL_WRITES.with(|f| *f.borrow_mut() = b);
    }
    /// the next `write` stores only the first n bytes and then "crashes" (unwinds with `Crash`)
    pub fn tear_next_write(n: usize) {
        FS_TORN.with(|f| *f.borrow_mut() = Some(n));
    }

    /// `std::fs::File` stand-in: whole-file buffer, flushed on drop / explicit write
    pub struct File {
        path: PathBuf,
        buf: Vec<u8>,
        pos: std::cell::Cell<usize>,
        writable: bool,
    }
    impl File {
        pub fn open<P: AsRef<Path>>(p: P) -> io::Result<File> {
            let buf = read(&p)?;
            Ok(File { path: p.as_ref().to_path_buf(), buf, pos: std::cell::Cell::new(0), writable: false })
        }
        pub fn create<P: AsRef<Path>>(p: P) -> io::Result<File> {
            if FS_FAIL_WRITES.with(|f| *f.borrow()) {
                return Err(io::Error::new(io::ErrorKind::Other, "injected create failure"));
            }
            FS.with(|f| f.borrow_mut().insert(p.as_ref().to_path_buf(), vec![]));
            Ok(File { path: p.as_ref().to_path_buf(), buf: vec![], pos: std::cell::Cell::new(0), writable: true })
        }
    }
    impl io::Read for File {
        fn read(&mut self, out: &mut [u8]) -> io::Result<usize> {
            (&*self).read(out)
        }
    }
    impl io::Read for &File {
        fn read(&mut self, out: &mut [u8]) -> io::Result<usize> {
            let pos = self.pos.get();
            let n = out.len().min(self.buf.len() - pos);
            out[..n].copy_from_slice(&self.buf[pos..pos + n]);
            self.pos.set(pos + n);
            Ok(n)
        }
    }
    impl io::Write for File {
        fn write(&mut self, b: &[u8]) -> io::Result<usize> {
            assert!(self.writable);
            self.buf.extend_from_slice(b);
            FS.with(|f| f.borrow_mut().insert(self.path.clone(), self.buf.clone()));
            Ok(b.len())
        }
        fn flush(&mut self) -> io::Result<()> {
            Ok(())
        }
    }
}

/// unwinding payload of a simulated crash in the middle of a file write
pub struct Crash;

// ---------------- symbolic hash table ----------------

/// H[id]: a 256-bit symbolic value per distinct byte string; pairwise distinct.
pub fn hash_of(id: &[u8]) -> SymU<256> {
    if let Some(h) = HTABLE.with(|t| t.borrow().iter().find(|(b, _)| b == id).map(|(_, h)| *h)) {
        return h;
    }
    let name = format!("H_{}", hex_short(id));
    let h = SymU::<256>::fresh(&name);
    let others: Vec<SymU<256>> = HTABLE.with(|t| t.borrow().iter().map(|(_, h)| *h).collect());
    HTABLE.with(|t| t.borrow_mut().push((id.to_vec(), h)));
    for o in others {
        crate::assume(h.seq(o).not().0);
    }
    h
}

/// pre-assign H[id] (e.g. a constant, to keep a harness's distance comparisons out of the solver)
pub fn set_hash(id: &[u8], h: SymU<256>) {
    HTABLE.with(|t| {
        let mut t = t.borrow_mut();
        t.retain(|(b, _)| b != id);
        t.push((id.to_vec(), h));
    });
}

pub fn hash_name(id: &[u8]) -> String {
    format!("H_{}:256", hex_short(id))
}

fn hex_short(id: &[u8]) -> String {
    let mut s = String::new();
    for b in id.iter().take(6) {
        s.push_str(&format!("{:02x}", b));
    }
    if id.len() > 6 {
        s.push_str(&format!("_{}", id.len()));
        // disambiguate on the tail as well
        for b in id.iter().rev().take(2) {
            s.push_str(&format!("{:02x}", b));
        }
    }
    s
}

// ---------------- symbolic clock ----------------

/// current time: a symbolic 64-bit value (nanoseconds) that never decreases and
/// stays below 2^62.  Every call may observe a later instant.
pub fn now() -> SymU<64> {
    let prev = CLOCK.with(|c| *c.borrow());
    let t = SymU::<64>::fresh_auto("now");
    crate::assume(t.slt(SymU::<64>::konst(1u64 << 62)).0);
    if let Some(p) = prev {
        crate::assume(p.sle(t).0);
    }
    CLOCK.with(|c| *c.borrow_mut() = Some(t));
    t
}

/// the clock does not advance between calls until `unfreeze` (one logical instant)
pub fn now_frozen() -> SymU<64> {
    if let Some(p) = CLOCK.with(|c| *c.borrow()) {
        return p;
    }
    now()
}
