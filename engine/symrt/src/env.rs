//! Environment shims shared by the harness crates: task list (spawn), recorder
//! channels, in-memory file system with crash points, symbolic clocks, and the
//! symbolic hash table H[id] used for XOR distances.
use crate::sym::SymU;
use std::cell::RefCell;
use std::collections::{BTreeMap, VecDeque};
use std::future::Future;
use std::path::{Path, PathBuf};
use std::pin::Pin;
use std::rc::Rc;
use std::task::{Context, Poll, RawWaker, RawWakerVTable, Waker};

// ---------------- tasks ----------------
pub type Task = Pin<Box<dyn Future<Output = ()>>>;

thread_local! {
    static TASKS: RefCell<Vec<(u64, Option<Task>, String)>> = RefCell::new(Vec::new());
    static TASK_SEQ: RefCell<u64> = RefCell::new(0);
    static TASK_LABEL: RefCell<String> = RefCell::new(String::new());
    static FS: RefCell<BTreeMap<PathBuf, fs::Inode>> = RefCell::new(BTreeMap::new());
    static FS_INTRUDER: RefCell<Option<Box<dyn FnMut(&str)>>> = RefCell::new(None);
    static FS_FAIL_WRITES: RefCell<bool> = RefCell::new(false);
    static FS_TORN: RefCell<Option<usize>> = RefCell::new(None);
    static HTABLE: RefCell<Vec<(Vec<u8>, SymU<256>)>> = RefCell::new(Vec::new());
    static CLOCK: RefCell<Option<SymU<64>>> = RefCell::new(None);
}

pub fn reset() {
    TASKS.with(|t| {
        // drop tasks without running them; forget to avoid destructor side effects on stale terms
        let v = std::mem::take(&mut *t.borrow_mut());
        drop(v);
    });
    TASK_SEQ.with(|s| *s.borrow_mut() = 0);
    TASK_LABEL.with(|s| s.borrow_mut().clear());
    FS.with(|f| f.borrow_mut().clear());
    FS_FAIL_WRITES.with(|f| *f.borrow_mut() = false);
    FS_TORN.with(|f| *f.borrow_mut() = None);
    FS_INTRUDER.with(|f| *f.borrow_mut() = None);
    HTABLE.with(|h| h.borrow_mut().clear());
    CLOCK.with(|c| *c.borrow_mut() = None);
}

/// forget every pending task (crash)
pub fn reset_tasks() {
    TASKS.with(|t| {
        let v = std::mem::take(&mut *t.borrow_mut());
        drop(v);
    });
}

pub struct JoinHandle;

/// label attached to the tasks spawned from now on (harness bookkeeping: which key they belong to)
pub fn set_task_label(l: &str) {
    TASK_LABEL.with(|s| *s.borrow_mut() = l.to_string());
}

pub fn spawn<F: Future + 'static>(f: F) -> JoinHandle {
    let id = TASK_SEQ.with(|s| {
        let mut s = s.borrow_mut();
        *s += 1;
        *s
    });
    let label = TASK_LABEL.with(|s| s.borrow().clone());
    let t: Task = Box::pin(async move {
        let _ = f.await;
    });
    TASKS.with(|ts| ts.borrow_mut().push((id, Some(t), label)));
    JoinHandle
}

pub fn pending_tasks() -> Vec<(u64, String)> {
    TASKS.with(|ts| ts.borrow().iter().map(|(i, _, l)| (*i, l.clone())).collect())
}

pub fn noop_waker() -> Waker {
    fn clone(_: *const ()) -> RawWaker {
        RawWaker::new(std::ptr::null(), &VTABLE)
    }
    fn noop(_: *const ()) {}
    static VTABLE: RawWakerVTable = RawWakerVTable::new(clone, noop, noop, noop);
    unsafe { Waker::from_raw(RawWaker::new(std::ptr::null(), &VTABLE)) }
}

/// poll the task with the given id once; returns true if it completed
pub fn run_task(id: u64) -> bool {
    let mut task = TASKS.with(|ts| {
        let mut ts = ts.borrow_mut();
        let idx = ts.iter().position(|(i, _, _)| *i == id).expect("no such task");
        ts[idx].1.take().expect("task is running")
    });
    let w = noop_waker();
    let mut cx = Context::from_waker(&w);
    let done = matches!(task.as_mut().poll(&mut cx), Poll::Ready(()));
    TASKS.with(|ts| {
        let mut ts = ts.borrow_mut();
        let idx = ts.iter().position(|(i, _, _)| *i == id).unwrap();
        if done {
            ts.remove(idx);
        } else {
            ts[idx].1 = Some(task);
        }
    });
    done
}

/// drop a pending task without running it (crash before it ran)
pub fn drop_task(id: u64) {
    TASKS.with(|ts| ts.borrow_mut().retain(|(i, _, _)| *i != id));
}

/// run all pending tasks in FIFO order until none is left
pub fn run_all_tasks() {
    loop {
        let first = TASKS.with(|ts| ts.borrow().first().map(|t| t.0));
        match first {
            Some(id) => {
                let mut guard = 0;
                while !run_task(id) {
                    guard += 1;
                    assert!(guard < 1000, "task never completes");
                }
            }
            None => break,
        }
    }
}

pub fn block_on<F: Future>(f: F) -> F::Output {
    let mut f = Box::pin(f);
    let w = noop_waker();
    let mut cx = Context::from_waker(&w);
    let mut guard = 0;
    loop {
        if let Poll::Ready(v) = f.as_mut().poll(&mut cx) {
            return v;
        }
        guard += 1;
        assert!(guard < 10_000, "block_on: future never completes");
    }
}

/// future that returns Pending exactly once
pub struct YieldNow(bool);
pub fn yield_now() -> YieldNow {
    YieldNow(false)
}
impl Future for YieldNow {
    type Output = ();
    fn poll(mut self: Pin<&mut Self>, _cx: &mut Context<'_>) -> Poll<()> {
        if self.0 {
            Poll::Ready(())
        } else {
            self.0 = true;
            Poll::Pending
        }
    }
}

// ---------------- recorder channels ----------------
pub mod mpsc {
    use super::*;
    pub struct Sender<T>(pub Rc<RefCell<VecDeque<T>>>, pub Rc<RefCell<bool>>);
    pub struct Receiver<T>(pub Rc<RefCell<VecDeque<T>>>, pub Rc<RefCell<bool>>);
    impl<T> Clone for Sender<T> {
        fn clone(&self) -> Self {
            Sender(self.0.clone(), self.1.clone())
        }
    }
    impl<T> std::fmt::Debug for Sender<T> {
        fn fmt(&self, f: &mut std::fmt::Formatter<'_>) -> std::fmt::Result {
            write!(f, "Sender")
        }
    }
    pub mod error {
        #[derive(Debug)]
        pub struct SendError<T>(pub T);
        impl<T> std::fmt::Display for SendError<T> {
            fn fmt(&self, f: &mut std::fmt::Formatter<'_>) -> std::fmt::Result {
                write!(f, "channel closed")
            }
        }
        #[derive(Debug)]
        pub enum TrySendError<T> {
            Full(T),
            Closed(T),
        }
    }
    pub fn channel<T>(_cap: usize) -> (Sender<T>, Receiver<T>) {
        let q = Rc::new(RefCell::new(VecDeque::new()));
        let closed = Rc::new(RefCell::new(false));
        (Sender(q.clone(), closed.clone()), Receiver(q, closed))
    }
    impl<T> Sender<T> {
        pub async fn send(&self, v: T) -> Result<(), error::SendError<T>> {
            if *self.1.borrow() {
                return Err(error::SendError(v));
            }
            self.0.borrow_mut().push_back(v);
            Ok(())
        }
        pub fn try_send(&self, v: T) -> Result<(), error::TrySendError<T>> {
            if *self.1.borrow() {
                return Err(error::TrySendError::Closed(v));
            }
            self.0.borrow_mut().push_back(v);
            Ok(())
        }
        pub fn capacity(&self) -> usize {
            1000
        }
        pub fn max_capacity(&self) -> usize {
            1000
        }
    }
    impl<T> Receiver<T> {
        pub fn try_recv(&mut self) -> Option<T> {
            self.0.borrow_mut().pop_front()
        }
        pub fn len(&self) -> usize {
            self.0.borrow().len()
        }
        pub fn is_empty(&self) -> bool {
            self.0.borrow().is_empty()
        }
        pub fn take_at(&mut self, i: usize) -> Option<T> {
            self.0.borrow_mut().remove(i)
        }
        pub fn close(&mut self) {
            *self.1.borrow_mut() = true;
        }
        pub fn with_queue<R>(&self, f: impl FnOnce(&VecDeque<T>) -> R) -> R {
            f(&self.0.borrow())
        }
    }
}

// ---------------- in-memory file system ----------------
/// POSIX-like model: a directory maps paths to inodes; open handles keep their inode across
/// rename / unlink and have their own position; opening without truncation keeps the old bytes;
/// `File::create` / `fs::write` truncate the existing inode in place (other handles see it).
pub mod fs {
    use super::*;
    use std::io;

    pub(super) type Inode = Rc<RefCell<Vec<u8>>>;

    fn intrude(op: &str) {
        // a concurrently running process registered by the harness may act before this operation
        let f = FS_INTRUDER.with(|i| i.borrow_mut().take());
        if let Some(mut f) = f {
            f(op);
            FS_INTRUDER.with(|i| {
                let mut slot = i.borrow_mut();
                if slot.is_none() {
                    *slot = Some(f);
                }
            });
        }
    }
    /// `f(op)` is called before every file-system operation of the code under test (never re-entrantly)
    pub fn set_intruder(f: Option<Box<dyn FnMut(&str)>>) {
        FS_INTRUDER.with(|i| *i.borrow_mut() = f);
    }
    fn lookup(p: &Path) -> Option<Inode> {
        FS.with(|f| f.borrow().get(p).cloned())
    }
    fn not_found() -> io::Error {
        io::Error::new(io::ErrorKind::NotFound, "no such file")
    }
    /// writes `bytes` at `pos` into the inode; honours an armed torn write (prefix, then crash)
    fn write_at(inode: &Inode, pos: usize, bytes: &[u8]) -> usize {
        let torn = FS_TORN.with(|f| f.borrow_mut().take());
        let n = match torn {
            Some(n) => n.min(bytes.len()),
            None => bytes.len(),
        };
        {
            let mut c = inode.borrow_mut();
            if c.len() < pos {
                c.resize(pos, 0);
            }
            let overlap = (c.len() - pos).min(n);
            c[pos..pos + overlap].copy_from_slice(&bytes[..overlap]);
            c.extend_from_slice(&bytes[overlap..n]);
        }
        if torn.is_some() {
            std::panic::resume_unwind(Box::new(super::Crash));
        }
        n
    }

    pub fn write<P: AsRef<Path>, C: AsRef<[u8]>>(p: P, c: C) -> io::Result<()> {
        intrude("write");
        if FS_FAIL_WRITES.with(|f| *f.borrow()) {
            return Err(io::Error::new(io::ErrorKind::Other, "injected write failure"));
        }
        // std::fs::write = create (truncating the existing inode) + write_all
        let inode = match lookup(p.as_ref()) {
            Some(i) => {
                i.borrow_mut().clear();
                i
            }
            None => {
                let i: Inode = Rc::new(RefCell::new(vec![]));
                FS.with(|f| f.borrow_mut().insert(p.as_ref().to_path_buf(), i.clone()));
                i
            }
        };
        write_at(&inode, 0, c.as_ref());
        Ok(())
    }
    pub fn read<P: AsRef<Path>>(p: P) -> io::Result<Vec<u8>> {
        intrude("read");
        lookup(p.as_ref()).map(|i| i.borrow().clone()).ok_or_else(not_found)
    }
    pub fn read_to_string<P: AsRef<Path>>(p: P) -> io::Result<String> {
        String::from_utf8(read(p)?).map_err(|_| io::Error::new(io::ErrorKind::InvalidData, "stream did not contain valid UTF-8"))
    }
    pub fn remove_file<P: AsRef<Path>>(p: P) -> io::Result<()> {
        intrude("remove_file");
        FS.with(|f| f.borrow_mut().remove(p.as_ref())).map(|_| ()).ok_or_else(not_found)
    }
    pub fn rename<P: AsRef<Path>, Q: AsRef<Path>>(from: P, to: Q) -> io::Result<()> {
        intrude("rename");
        let i = FS.with(|f| f.borrow_mut().remove(from.as_ref())).ok_or_else(not_found)?;
        FS.with(|f| f.borrow_mut().insert(to.as_ref().to_path_buf(), i));
        Ok(())
    }
    /// what a private temporary file + rename amounts to: a fresh inode with `bytes` becomes visible at `p` at once
    pub fn install<P: AsRef<Path>>(p: P, bytes: &[u8]) -> io::Result<()> {
        intrude("rename");
        if FS_FAIL_WRITES.with(|f| *f.borrow()) {
            return Err(io::Error::new(io::ErrorKind::Other, "injected write failure"));
        }
        FS.with(|f| f.borrow_mut().insert(p.as_ref().to_path_buf(), Rc::new(RefCell::new(bytes.to_vec()))));
        Ok(())
    }
    pub fn copy<P: AsRef<Path>, Q: AsRef<Path>>(from: P, to: Q) -> io::Result<u64> {
        let b = read(from)?;
        let n = b.len() as u64;
        write(to, b)?;
        Ok(n)
    }
    pub fn create_dir_all<P: AsRef<Path>>(_p: P) -> io::Result<()> {
        Ok(())
    }
    /// std::fs::metadata: length and kind of the file at the path (directories are not modelled: the path of a
    /// directory that "exists" because files live below it is reported as a directory of length 0)
    pub fn metadata<P: AsRef<Path>>(p: P) -> io::Result<Metadata> {
        match read(p.as_ref()) {
            Ok(b) => Ok(Metadata::file(b.len() as u64)),
            Err(e) => {
                if list().iter().any(|q| q.starts_with(p.as_ref()) && q != p.as_ref()) {
                    Ok(Metadata::dir())
                } else {
                    Err(e)
                }
            }
        }
    }
    pub fn exists<P: AsRef<Path>>(p: P) -> bool {
        FS.with(|f| f.borrow().contains_key(p.as_ref()))
    }
    pub fn list() -> Vec<PathBuf> {
        FS.with(|f| f.borrow().keys().cloned().collect())
    }
    pub fn snapshot() -> BTreeMap<PathBuf, Vec<u8>> {
        FS.with(|f| f.borrow().iter().map(|(k, v)| (k.clone(), v.borrow().clone())).collect())
    }
    pub fn restore(m: BTreeMap<PathBuf, Vec<u8>>) {
        FS.with(|f| *f.borrow_mut() = m.into_iter().map(|(k, v)| (k, Rc::new(RefCell::new(v)))).collect());
    }
    pub fn set_fail_writes(b: bool) {
        FS_FAIL_WRITES.with(|f| *f.borrow_mut() = b);
    }
    /// the next write (fs::write or one `write` call on a handle) stores only the first n bytes
    /// and then "crashes" (unwinds with `Crash`)
    pub fn tear_next_write(n: usize) {
        FS_TORN.with(|f| *f.borrow_mut() = Some(n));
    }

    #[derive(Clone, Debug, Default)]
    pub struct OpenOptions {
        read: bool,
        write: bool,
        append: bool,
        truncate: bool,
        create: bool,
        create_new: bool,
    }
    impl OpenOptions {
        pub fn new() -> Self {
            OpenOptions::default()
        }
        pub fn read(&mut self, b: bool) -> &mut Self {
            self.read = b;
            self
        }
        pub fn write(&mut self, b: bool) -> &mut Self {
            self.write = b;
            self
        }
        pub fn append(&mut self, b: bool) -> &mut Self {
            self.append = b;
            self
        }
        pub fn truncate(&mut self, b: bool) -> &mut Self {
            self.truncate = b;
            self
        }
        pub fn create(&mut self, b: bool) -> &mut Self {
            self.create = b;
            self
        }
        pub fn create_new(&mut self, b: bool) -> &mut Self {
            self.create_new = b;
            self
        }
        pub fn open<P: AsRef<Path>>(&self, p: P) -> io::Result<File> {
            intrude("open");
            let writing = self.write || self.append;
            if (self.create || self.create_new || self.truncate) && !writing {
                return Err(io::Error::new(io::ErrorKind::InvalidInput, "create/truncate without write access"));
            }
            if !self.read && !writing {
                return Err(io::Error::new(io::ErrorKind::InvalidInput, "no access mode"));
            }
            if writing && FS_FAIL_WRITES.with(|f| *f.borrow()) {
                return Err(io::Error::new(io::ErrorKind::Other, "injected open-for-write failure"));
            }
            let inode = match lookup(p.as_ref()) {
                Some(_) if self.create_new => return Err(io::Error::new(io::ErrorKind::AlreadyExists, "file exists")),
                Some(i) => i,
                None if self.create || self.create_new => {
                    let i: Inode = Rc::new(RefCell::new(vec![]));
                    FS.with(|f| f.borrow_mut().insert(p.as_ref().to_path_buf(), i.clone()));
                    i
                }
                None => return Err(not_found()),
            };
            if self.truncate {
                inode.borrow_mut().clear();
            }
            Ok(File { inode, pos: std::cell::Cell::new(0), readable: self.read, writable: writing, append: self.append })
        }
    }

    /// `std::fs::File` stand-in: a handle on an inode with its own position
    pub struct File {
        inode: Inode,
        pos: std::cell::Cell<usize>,
        readable: bool,
        writable: bool,
        append: bool,
    }
    #[derive(Clone, Debug)]
    pub struct Metadata(u64, bool);
    impl Metadata {
        pub fn file(len: u64) -> Self {
            Metadata(len, true)
        }
        pub fn dir() -> Self {
            Metadata(0, false)
        }
        pub fn len(&self) -> u64 {
            self.0
        }
        pub fn is_file(&self) -> bool {
            self.1
        }
        pub fn is_dir(&self) -> bool {
            !self.1
        }
    }
    impl File {
        pub fn open<P: AsRef<Path>>(p: P) -> io::Result<File> {
            OpenOptions::new().read(true).open(p)
        }
        pub fn create<P: AsRef<Path>>(p: P) -> io::Result<File> {
            OpenOptions::new().write(true).create(true).truncate(true).open(p)
        }
        pub fn options() -> OpenOptions {
            OpenOptions::new()
        }
        pub fn sync_all(&self) -> io::Result<()> {
            intrude("sync");
            Ok(())
        }
        pub fn sync_data(&self) -> io::Result<()> {
            intrude("sync");
            Ok(())
        }
        pub fn set_len(&self, n: u64) -> io::Result<()> {
            intrude("set_len");
            if !self.writable {
                return Err(io::Error::new(io::ErrorKind::InvalidInput, "not opened for writing"));
            }
            self.inode.borrow_mut().resize(n as usize, 0);
            Ok(())
        }
        pub fn metadata(&self) -> io::Result<Metadata> {
            Ok(Metadata::file(self.inode.borrow().len() as u64))
        }
    }
    impl io::Read for File {
        fn read(&mut self, out: &mut [u8]) -> io::Result<usize> {
            (&*self).read(out)
        }
    }
    impl io::Read for &File {
        fn read(&mut self, out: &mut [u8]) -> io::Result<usize> {
            if !self.readable {
                return Err(io::Error::new(io::ErrorKind::Other, "not opened for reading"));
            }
            let c = self.inode.borrow();
            let pos = self.pos.get().min(c.len());
            let n = out.len().min(c.len() - pos);
            out[..n].copy_from_slice(&c[pos..pos + n]);
            self.pos.set(pos + n);
            Ok(n)
        }
    }
    impl io::Write for File {
        fn write(&mut self, b: &[u8]) -> io::Result<usize> {
            (&*self).write(b)
        }
        fn flush(&mut self) -> io::Result<()> {
            Ok(())
        }
    }
    impl io::Write for &File {
        fn write(&mut self, b: &[u8]) -> io::Result<usize> {
            intrude("write");
            if !self.writable {
                return Err(io::Error::new(io::ErrorKind::Other, "not opened for writing"));
            }
            let pos = if self.append { self.inode.borrow().len() } else { self.pos.get() };
            let n = write_at(&self.inode, pos, b);
            self.pos.set(pos + n);
            Ok(n)
        }
        fn flush(&mut self) -> io::Result<()> {
            Ok(())
        }
    }
    impl io::Seek for File {
        fn seek(&mut self, to: io::SeekFrom) -> io::Result<u64> {
            let len = self.inode.borrow().len() as i64;
            let np = match to {
                io::SeekFrom::Start(n) => n as i64,
                io::SeekFrom::End(d) => len + d,
                io::SeekFrom::Current(d) => self.pos.get() as i64 + d,
            };
            if np < 0 {
                return Err(io::Error::new(io::ErrorKind::InvalidInput, "seek before start"));
            }
            self.pos.set(np as usize);
            Ok(np as u64)
        }
    }
}

/// unwinding payload of a simulated crash in the middle of a file write
pub struct Crash;

// ---------------- symbolic hash table ----------------

/// H[id]: a 256-bit symbolic value per distinct byte string; pairwise distinct.
pub fn hash_of(id: &[u8]) -> SymU<256> {
    if let Some(h) = HTABLE.with(|t| t.borrow().iter().find(|(b, _)| b == id).map(|(_, h)| *h)) {
        return h;
    }
    let name = format!("H_{}", hex_short(id));
    let h = SymU::<256>::fresh(&name);
    let others: Vec<SymU<256>> = HTABLE.with(|t| t.borrow().iter().map(|(_, h)| *h).collect());
    HTABLE.with(|t| t.borrow_mut().push((id.to_vec(), h)));
    for o in others {
        crate::assume(h.seq(o).not().0);
    }
    h
}

/// pre-assign H[id] (e.g. a constant, to keep a harness's distance comparisons out of the solver)
pub fn set_hash(id: &[u8], h: SymU<256>) {
    HTABLE.with(|t| {
        let mut t = t.borrow_mut();
        t.retain(|(b, _)| b != id);
        t.push((id.to_vec(), h));
    });
}

pub fn hash_name(id: &[u8]) -> String {
    format!("H_{}:256", hex_short(id))
}

fn hex_short(id: &[u8]) -> String {
    let mut s = String::new();
    for b in id.iter().take(6) {
        s.push_str(&format!("{:02x}", b));
    }
    if id.len() > 6 {
        s.push_str(&format!("_{}", id.len()));
        // disambiguate on the tail as well
        for b in id.iter().rev().take(2) {
            s.push_str(&format!("{:02x}", b));
        }
    }
    s
}

// ---------------- symbolic clock ----------------

/// current time: a symbolic 64-bit value (nanoseconds) that never decreases and
/// stays below 2^62.  Every call may observe a later instant.
pub fn now() -> SymU<64> {
    let prev = CLOCK.with(|c| *c.borrow());
    let t = SymU::<64>::fresh_auto("now");
    crate::assume(t.slt(SymU::<64>::konst(1u64 << 62)).0);
    if let Some(p) = prev {
        crate::assume(p.sle(t).0);
    }
    CLOCK.with(|c| *c.borrow_mut() = Some(t));
    t
}

/// the clock does not advance between calls until `unfreeze` (one logical instant)
pub fn now_frozen() -> SymU<64> {
    if let Some(p) = CLOCK.with(|c| *c.borrow()) {
        return p;
    }
    now()
}
