//! symrt — a small dynamic-symbolic-execution runtime.
//!
//! The code under test is ordinary compiled Rust (the real function bodies
//! transplanted from /repo).  Scalars of huge domains are `SymU<W>` handles
//! into a per-path term arena; every comparison on them calls `decide`, which
//! asks an SMT solver (cvc5, incremental) which outcomes are feasible under the
//! current path condition and forks.  The explorer re-executes the harness
//! body once per path (DFS over a decision trail).  `check` discharges an
//! obligation `PC => cond` with the solver; a satisfiable negation is a
//! counterexample (model of all declared variables + decision trail), which
//! `replay_concrete` re-executes without any solver by evaluating terms under
//! the model.
pub mod assoc;
pub mod det;
pub mod env;
pub mod solver;
pub mod sym;

use ruint::aliases::U256;
use std::cell::RefCell;
use std::collections::{BTreeMap, HashMap, HashSet};
use std::panic::{catch_unwind, AssertUnwindSafe};
use std::time::Instant;

pub use sym::{SymBool, SymU};

pub type T = u32;

#[derive(Clone, Copy, Debug, PartialEq, Eq, Hash)]
pub enum Op {
    Xor,
    BvAnd,
    BvOr,
    Add,
    Sub,
    Mul,
    UDiv,
    URem,
    Eq,
    Ult,
    Ule,
    And,
    Or,
}

#[derive(Clone, Debug, PartialEq, Eq, Hash)]
pub enum Node {
    Var(String, u32), // width 0 == Bool
    Const(U256, u32),
    BConst(bool),
    Bin(Op, T, T),
    Not(T),
    Ite(T, T, T),
}

#[derive(Clone, Debug, PartialEq, Eq)]
pub enum Kind {
    Decide,
    Choice,
    Concrete,
}

#[derive(Clone, Debug)]
pub struct Entry {
    taken: u32,
    remaining: Vec<u32>,
    kind: Kind,
    val: Option<U256>,
}

impl Entry {
    fn frozen(&self) -> Entry {
        Entry { taken: self.taken, remaining: vec![], kind: self.kind.clone(), val: self.val }
    }
}

/// panic payloads used for control flow
pub struct Pruned;
pub struct Deferred;
pub struct Budget;

#[derive(Clone, Debug, Default)]
pub struct Violation {
    pub check: String,
    pub detail: String,
    pub model: BTreeMap<String, String>,
    pub trail: Vec<(u32, bool)>, // (taken, is_choice)
    pub notes: Vec<String>,
    pub replayed: Option<bool>,
}

#[derive(Clone, Debug, Default)]
pub struct Report {
    pub harness: String,
    pub paths: u64,
    pub pruned: u64,
    pub deferred: u64,
    pub solver_queries: u64,
    pub solver_time_s: f64,
    pub solver_decided_nodes: u64,
    pub both_feasible_nodes: u64,
    pub choice_forks: u64,
    pub final_queries: u64,
    pub checks_discharged: u64,
    pub checks_by_name: BTreeMap<String, u64>,
    pub covers: BTreeMap<String, u64>,
    pub violations: Vec<Violation>,
    pub violation_counts: BTreeMap<String, u64>,
    pub samples: Vec<serde_json::Value>,
    pub exhausted: bool,
    pub inconclusive: u64,
    pub crosschecked: u64,
    pub crosscheck_disagreements: u64,
    pub wall_s: f64,
    pub paths_with_checks: u64,
    pub discharged_syntactically: u64,
    pub fallback_queries: u64,
    pub fallback_time_s: f64,
}

impl Report {
    pub fn push_violation(&mut self, v: Violation) {
        *self.violation_counts.entry(v.check.clone()).or_default() += 1;
        let n = self.violations.iter().filter(|x| x.check == v.check).count();
        if n < 2 {
            self.violations.push(v);
        }
    }
    pub fn merge(&mut self, o: Report) {
        self.paths += o.paths;
        self.pruned += o.pruned;
        self.deferred += o.deferred;
        self.solver_queries += o.solver_queries;
        self.solver_time_s += o.solver_time_s;
        self.solver_decided_nodes += o.solver_decided_nodes;
        self.both_feasible_nodes += o.both_feasible_nodes;
        self.choice_forks += o.choice_forks;
        self.final_queries += o.final_queries;
        self.checks_discharged += o.checks_discharged;
        for (k, v) in o.checks_by_name {
            *self.checks_by_name.entry(k).or_default() += v;
        }
        for (k, v) in o.covers {
            *self.covers.entry(k).or_default() += v;
        }
        for v in o.violations {
            let n = self.violations.iter().filter(|x| x.check == v.check).count();
            if n < 2 {
                self.violations.push(v);
            }
        }
        for (k, v) in o.violation_counts {
            *self.violation_counts.entry(k).or_default() += v;
        }
        for s in o.samples {
            if self.samples.len() < 6 {
                self.samples.push(s);
            }
        }
        self.exhausted &= o.exhausted;
        self.inconclusive += o.inconclusive;
        self.crosschecked += o.crosschecked;
        self.crosscheck_disagreements += o.crosscheck_disagreements;
        self.paths_with_checks += o.paths_with_checks;
        self.discharged_syntactically += o.discharged_syntactically;
        self.fallback_queries += o.fallback_queries;
        self.fallback_time_s += o.fallback_time_s;
    }
    pub fn to_json(&self) -> serde_json::Value {
        serde_json::json!({
            "harness": self.harness,
            "paths": self.paths,
            "paths_with_checks": self.paths_with_checks,
            "pruned": self.pruned,
            "solver_queries": self.solver_queries,
            "solver_time_s": (self.solver_time_s*1000.0).round()/1000.0,
            "solver_decided_nodes": self.solver_decided_nodes,
            "both_feasible_nodes": self.both_feasible_nodes,
            "choice_forks": self.choice_forks,
            "final_queries": self.final_queries,
            "checks_discharged": self.checks_discharged,
            "discharged_syntactically": self.discharged_syntactically,
            "fallback_queries": self.fallback_queries,
            "fallback_time_s": (self.fallback_time_s*1000.0).round()/1000.0,
            "checks_by_name": self.checks_by_name,
            "covers": self.covers,
            "violation_counts": self.violation_counts,
            "violations": self.violations.iter().map(|v| serde_json::json!({
                "check": v.check, "detail": v.detail, "model": v.model,
                "trail": v.trail.iter().map(|(t,c)| serde_json::json!([t,c])).collect::<Vec<_>>(),
                "notes": v.notes, "replayed": v.replayed,
            })).collect::<Vec<_>>(),
            "samples": self.samples,
            "exhausted": self.exhausted,
            "inconclusive": self.inconclusive,
            "crosschecked": self.crosschecked,
            "crosscheck_disagreements": self.crosscheck_disagreements,
            "wall_s": (self.wall_s*1000.0).round()/1000.0,
        })
    }
}

#[derive(PartialEq, Eq, Clone, Copy)]
enum Mode {
    Explore,
    Concrete,
}

pub struct Ctx {
    solver: Option<solver::Solver>,
    arena: Vec<Node>,
    widths: Vec<u32>,
    var_ids: HashMap<String, T>,
    intern: HashMap<Node, T>,
    rel: HashMap<(T, T), u8>,
    bounds: HashMap<T, (U256, U256)>,
    pub syntactic_hits: u64,
    declared: HashSet<String>,
    path_vars: Vec<(String, u32)>,
    pc: Vec<T>,
    model: HashMap<String, U256>,
    model_valid: bool,
    trail: Vec<Entry>,
    pos: usize,
    forced: usize,
    split_depth: Option<usize>,
    deferred_prefixes: Vec<Vec<Entry>>,
    mode: Mode,
    auto: HashMap<String, u32>,
    notes: Vec<String>,
    checks_this_path: u64,
    paths_since_restart: u64,
    restart_every: u64,
    rep: Report,
    max_violations: usize,
    crosscheck_every: u64,
    seed: u64,
}

thread_local! {
    static CTX: RefCell<Ctx> = RefCell::new(Ctx::new());
    static PATH_RESET: RefCell<Vec<fn()>> = RefCell::new(Vec::new());
}

fn flip(m: u8) -> u8 {
    (m & 2) | ((m & 1) << 2) | ((m & 4) >> 2)
}

fn mask_of(w: u32) -> U256 {
    mask(w.max(1))
}

fn mask(w: u32) -> U256 {
    if w >= 256 {
        U256::MAX
    } else {
        (U256::from(1u8) << (w as usize)) - U256::from(1u8)
    }
}

impl Ctx {
    fn new() -> Self {
        Ctx {
            solver: None,
            arena: vec![],
            widths: vec![],
            var_ids: HashMap::new(),
            intern: HashMap::new(),
            rel: HashMap::new(),
            bounds: HashMap::new(),
            syntactic_hits: 0,
            declared: HashSet::new(),
            path_vars: vec![],
            pc: vec![],
            model: HashMap::new(),
            model_valid: true,
            trail: vec![],
            pos: 0,
            forced: 0,
            split_depth: None,
            deferred_prefixes: vec![],
            mode: Mode::Explore,
            auto: HashMap::new(),
            notes: vec![],
            checks_this_path: 0,
            paths_since_restart: 0,
            restart_every: std::env::var("SYMRT_SOLVER_RESTART").ok().and_then(|v| v.parse().ok()).unwrap_or(40),
            rep: Report::default(),
            max_violations: 12,
            crosscheck_every: 0,
            seed: 0,
        }
    }

    fn mk(&mut self, n: Node, w: u32) -> T {
        if let Some(t) = self.intern.get(&n) {
            return *t;
        }
        self.arena.push(n.clone());
        self.widths.push(w);
        let t = (self.arena.len() - 1) as T;
        self.intern.insert(n, t);
        t
    }

    pub fn width(&self, t: T) -> u32 {
        self.widths[t as usize]
    }

    fn render(&self, t: T, out: &mut String) {
        match &self.arena[t as usize] {
            Node::Var(n, _) => {
                out.push('|');
                out.push_str(n);
                out.push('|');
            }
            Node::Const(v, w) => {
                out.push_str(&format!("(_ bv{} {})", v, w));
            }
            Node::BConst(b) => out.push_str(if *b { "true" } else { "false" }),
            Node::Not(a) => {
                out.push_str("(not ");
                self.render(*a, out);
                out.push(')');
            }
            Node::Ite(c, a, b) => {
                out.push_str("(ite ");
                self.render(*c, out);
                out.push(' ');
                self.render(*a, out);
                out.push(' ');
                self.render(*b, out);
                out.push(')');
            }
            Node::Bin(op, a, b) => {
                let name = match op {
                    Op::Xor => "bvxor",
                    Op::BvAnd => "bvand",
                    Op::BvOr => "bvor",
                    Op::Add => "bvadd",
                    Op::Sub => "bvsub",
                    Op::Mul => "bvmul",
                    Op::UDiv => "bvudiv",
                    Op::URem => "bvurem",
                    Op::Eq => "=",
                    Op::Ult => "bvult",
                    Op::Ule => "bvule",
                    Op::And => "and",
                    Op::Or => "or",
                };
                out.push('(');
                out.push_str(name);
                out.push(' ');
                self.render(*a, out);
                out.push(' ');
                self.render(*b, out);
                out.push(')');
            }
        }
    }

    fn smt(&self, t: T) -> String {
        let mut s = String::new();
        self.render(t, &mut s);
        s
    }

    fn eval(&self, t: T) -> U256 {
        match &self.arena[t as usize] {
            Node::Var(n, w) => {
                let v = self.model.get(n).copied().unwrap_or(U256::ZERO);
                if *w == 0 {
                    v
                } else {
                    v & mask(*w)
                }
            }
            Node::Const(v, _) => *v,
            Node::BConst(b) => U256::from(*b as u8),
            Node::Not(a) => U256::from((self.eval(*a) == U256::ZERO) as u8),
            Node::Ite(c, a, b) => {
                if self.eval(*c) != U256::ZERO {
                    self.eval(*a)
                } else {
                    self.eval(*b)
                }
            }
            Node::Bin(op, a, b) => self.eval_bin(*op, *a, *b),
        }
    }

    fn eval_bin(&self, op: Op, a: T, b: T) -> U256 {
        {
            {
                let w = self.widths[a as usize];
                let x = self.eval(a);
                let y = self.eval(b);
                let m = mask(w.max(1));
                match op {
                    Op::Xor => x ^ y,
                    Op::BvAnd => x & y,
                    Op::BvOr => x | y,
                    Op::Add => x.wrapping_add(y) & m,
                    Op::Sub => x.wrapping_sub(y) & m,
                    Op::Mul => x.wrapping_mul(y) & m,
                    Op::UDiv => {
                        if y == U256::ZERO {
                            m
                        } else {
                            x / y
                        }
                    }
                    Op::URem => {
                        if y == U256::ZERO {
                            x
                        } else {
                            x % y
                        }
                    }
                    Op::Eq => U256::from((x == y) as u8),
                    Op::Ult => U256::from((x < y) as u8),
                    Op::Ule => U256::from((x <= y) as u8),
                    Op::And => U256::from((x != U256::ZERO && y != U256::ZERO) as u8),
                    Op::Or => U256::from((x != U256::ZERO || y != U256::ZERO) as u8),
                }
            }
        }
    }

    fn solver(&mut self) -> &mut solver::Solver {
        if self.solver.is_none() {
            self.solver = Some(solver::Solver::spawn());
        }
        self.solver.as_mut().unwrap()
    }

    fn timed<R>(&mut self, f: impl FnOnce(&mut solver::Solver) -> R) -> R {
        let t0 = Instant::now();
        let r = f(self.solver());
        let dt = t0.elapsed().as_secs_f64();
        self.rep.solver_time_s += dt;
        if dt > 2.0 && std::env::var("SYMRT_DEBUG").is_ok() {
            eprintln!("SLOW {:.1}s; pc:", dt);
            for t in &self.pc {
                eprintln!("   {}", self.smt(*t));
            }
        }
        r
    }

    /// syntactic knowledge: relation masks between term pairs (1 = LT, 2 = EQ, 4 = GT)
    /// and unsigned interval bounds of terms, both derived only from asserted literals
    fn learn(&mut self, t: T, positive: bool) {
        match self.arena[t as usize].clone() {
            Node::Not(x) => self.learn(x, !positive),
            Node::Bin(Op::And, a, b) if positive => {
                self.learn(a, true);
                self.learn(b, true);
            }
            Node::Bin(Op::Or, a, b) if !positive => {
                self.learn(a, false);
                self.learn(b, false);
            }
            Node::Bin(op @ (Op::Ult | Op::Ule | Op::Eq), a, b) => {
                if self.widths[a as usize] == 0 {
                    return;
                }
                let truth: u8 = match op {
                    Op::Ult => 1,
                    Op::Ule => 3,
                    _ => 2,
                };
                let mask = if positive { truth } else { 7 & !truth };
                // relation of (a, b); stored for the ordered pair (min, max)
                let (key, m) = if a <= b { ((a, b), mask) } else { ((b, a), flip(mask)) };
                let e = self.rel.entry(key).or_insert(7);
                *e &= m;
                // bounds against constants
                let ca = self.const_of(a);
                let cb = self.const_of(b);
                let w = self.widths[a as usize];
                match (ca, cb) {
                    (None, Some(k)) => self.bound_by(a, mask, k, w),
                    (Some(k), None) => self.bound_by(b, flip(mask), k, w),
                    _ => {}
                }
            }
            _ => {}
        }
    }

    fn const_of(&self, t: T) -> Option<U256> {
        match &self.arena[t as usize] {
            Node::Const(v, _) => Some(*v),
            _ => None,
        }
    }

    /// term `a` relates to constant k by one of the relations in mask
    fn bound_by(&mut self, a: T, mask: u8, k: U256, w: u32) {
        let full = mask_of(w);
        let e = self.bounds.entry(a).or_insert((U256::ZERO, full));
        // lower bound: smallest value allowed
        let lo = if mask & 1 != 0 {
            U256::ZERO
        } else if mask & 2 != 0 {
            k
        } else {
            k.saturating_add(U256::from(1u8))
        };
        let hi = if mask & 4 != 0 {
            full
        } else if mask & 2 != 0 {
            k
        } else if k == U256::ZERO {
            U256::ZERO
        } else {
            k - U256::from(1u8)
        };
        if lo > e.0 {
            e.0 = lo;
        }
        if hi < e.1 {
            e.1 = hi;
        }
    }

    fn range_of(&self, t: T) -> (U256, U256) {
        if let Some(k) = self.const_of(t) {
            return (k, k);
        }
        let w = self.widths[t as usize];
        self.bounds.get(&t).copied().unwrap_or((U256::ZERO, mask_of(w)))
    }

    /// Some(b) if the asserted literals imply cond == b by the syntactic rules
    fn syntactic(&self, cond: T) -> Option<bool> {
        match &self.arena[cond as usize] {
            Node::BConst(b) => Some(*b),
            Node::Not(x) => self.syntactic(*x).map(|b| !b),
            Node::Bin(Op::And, a, b) => match (self.syntactic(*a), self.syntactic(*b)) {
                (Some(false), _) | (_, Some(false)) => Some(false),
                (Some(true), Some(true)) => Some(true),
                _ => None,
            },
            Node::Bin(Op::Or, a, b) => match (self.syntactic(*a), self.syntactic(*b)) {
                (Some(true), _) | (_, Some(true)) => Some(true),
                (Some(false), Some(false)) => Some(false),
                _ => None,
            },
            Node::Bin(op @ (Op::Ult | Op::Ule | Op::Eq), a, b) => {
                let (a, b) = (*a, *b);
                if self.widths[a as usize] == 0 {
                    return None;
                }
                let mut possible: u8 = if a <= b {
                    self.rel.get(&(a, b)).copied().unwrap_or(7)
                } else {
                    flip(self.rel.get(&(b, a)).copied().unwrap_or(7))
                };
                let (la, ha) = self.range_of(a);
                let (lb, hb) = self.range_of(b);
                if ha < lb {
                    possible &= 1;
                } else if ha <= lb {
                    possible &= 3;
                }
                if la > hb {
                    possible &= 4;
                } else if la >= hb {
                    possible &= 6;
                }
                let truth: u8 = match op {
                    Op::Ult => 1,
                    Op::Ule => 3,
                    _ => 2,
                };
                if possible == 0 {
                    return None; // infeasible path; let the solver say so
                }
                if possible & !truth == 0 {
                    Some(true)
                } else if possible & truth == 0 {
                    Some(false)
                } else {
                    None
                }
            }
            _ => None,
        }
    }

    fn assert_term(&mut self, t: T) {
        self.learn(t, true);
        self.pc.push(t);
        if self.mode == Mode::Explore {
            let s = self.smt(t);
            self.timed(|sv| sv.cmd(&format!("(assert {})", s)));
        }
    }

    fn standalone(&self, extra: Option<&str>) -> String {
        let mut script = String::new();
        for (n, w) in &self.path_vars {
            if *w == 0 {
                script.push_str(&format!("(declare-const |{}| Bool)\n", n));
            } else {
                script.push_str(&format!("(declare-const |{}| (_ BitVec {}))\n", n, w));
            }
        }
        for t in &self.pc {
            script.push_str(&format!("(assert {})\n", self.smt(*t)));
        }
        if let Some(e) = extra {
            script.push_str(&format!("(assert {})\n", e));
        }
        script
    }

    /// sat(PC /\ t)?   None = unknown
    fn query(&mut self, t: T) -> Option<bool> {
        let s = self.smt(t);
        self.rep.solver_queries += 1;
        let mut r = self.timed(|sv| sv.check_with(&s));
        if r.is_none() {
            self.rep.fallback_queries += 1;
            let script = self.standalone(Some(&s));
            let t0 = Instant::now();
            r = solver::oneshot_robust(&script, &[], false).map(|m| m.is_some());
            self.rep.solver_time_s += t0.elapsed().as_secs_f64();
            self.rep.fallback_time_s += t0.elapsed().as_secs_f64();
        }
        if r.is_none() {
            self.rep.inconclusive += 1;
        }
        r
    }

    fn refresh_model(&mut self) -> bool {
        self.rep.solver_queries += 1;
        let vars = self.path_vars.clone();
        let mut r = self.timed(|sv| sv.check_and_model(&vars));
        if r.is_none() {
            self.rep.fallback_queries += 1;
            let script = self.standalone(None);
            let t0 = Instant::now();
            r = solver::oneshot_robust(&script, &vars, true);
            self.rep.fallback_time_s += t0.elapsed().as_secs_f64();
        }
        match r {
            Some(Some(m)) => {
                self.model = m;
                self.model_valid = true;
                true
            }
            Some(None) => false,
            None => {
                self.rep.inconclusive += 1;
                false
            }
        }
    }

    fn model_strings(&self) -> BTreeMap<String, String> {
        let mut m = BTreeMap::new();
        for (n, w) in &self.path_vars {
            let v = self.model.get(n).copied().unwrap_or(U256::ZERO);
            let s = if *w == 0 {
                format!("{}", v != U256::ZERO)
            } else if *w <= 64 {
                format!("{}", v)
            } else {
                format!("0x{:x}", v)
            };
            m.insert(n.clone(), s);
        }
        m
    }

    fn trail_vec(&self) -> Vec<(u32, bool)> {
        self.trail[..self.pos.min(self.trail.len())]
            .iter()
            .map(|e| (e.taken, e.kind == Kind::Choice))
            .collect()
    }
}

// ---------- term constructors (public, used by sym.rs and harnesses) ----------

pub fn with<R>(f: impl FnOnce(&mut Ctx) -> R) -> R {
    CTX.with(|c| f(&mut c.borrow_mut()))
}

pub fn konst(v: U256, w: u32) -> T {
    with(|c| c.mk(Node::Const(v & mask(w), w), w))
}
pub fn bconst(b: bool) -> T {
    with(|c| c.mk(Node::BConst(b), 0))
}

pub fn fresh(name: &str, w: u32) -> T {
    with(|c| {
        let full = format!("{}:{}", name, w);
        if let Some(t) = c.var_ids.get(&full) {
            return *t;
        }
        if c.mode == Mode::Explore && !c.declared.contains(&full) {
            let sort = if w == 0 {
                "Bool".to_string()
            } else {
                format!("(_ BitVec {})", w)
            };
            let cmd = format!("(declare-const |{}| {})", full, sort);
            c.timed(|sv| sv.cmd(&cmd));
            c.declared.insert(full.clone());
        }
        c.path_vars.push((full.clone(), w));
        let t = c.mk(Node::Var(full.clone(), w), w);
        c.var_ids.insert(full, t);
        t
    })
}

/// fresh variable with an automatically numbered name (deterministic per path)
pub fn fresh_auto(prefix: &str, w: u32) -> T {
    let n = with(|c| {
        let e = c.auto.entry(prefix.to_string()).or_insert(0);
        *e += 1;
        *e
    });
    fresh(&format!("{}#{}", prefix, n), w)
}

pub fn bin(op: Op, a: T, b: T) -> T {
    let (a, b) = match op {
        Op::Xor | Op::Eq | Op::And | Op::Or | Op::Add | Op::Mul | Op::BvAnd | Op::BvOr if a > b => (b, a),
        _ => (a, b),
    };
    with(|c| {
        // constant folding
        if let (Node::Const(..) | Node::BConst(..), Node::Const(..) | Node::BConst(..)) =
            (&c.arena[a as usize], &c.arena[b as usize])
        {
            let w = match op {
                Op::Eq | Op::Ult | Op::Ule | Op::And | Op::Or => 0,
                _ => c.widths[a as usize],
            };
            let v = c.eval_bin(op, a, b);
            return if w == 0 {
                c.mk(Node::BConst(v != U256::ZERO), 0)
            } else {
                c.mk(Node::Const(v, w), w)
            };
        }
        // neutral elements
        let za = matches!(&c.arena[a as usize], Node::Const(v, _) if *v == U256::ZERO);
        let zb = matches!(&c.arena[b as usize], Node::Const(v, _) if *v == U256::ZERO);
        match op {
            Op::Xor | Op::Add | Op::BvOr if za => return b,
            Op::Xor | Op::Add | Op::BvOr | Op::Sub if zb => return a,
            Op::And => {
                if let Node::BConst(x) = c.arena[a as usize] {
                    return if x { b } else { a };
                }
                if let Node::BConst(x) = c.arena[b as usize] {
                    return if x { a } else { b };
                }
            }
            Op::Or => {
                if let Node::BConst(x) = c.arena[a as usize] {
                    return if x { a } else { b };
                }
                if let Node::BConst(x) = c.arena[b as usize] {
                    return if x { b } else { a };
                }
            }
            _ => {}
        }
        if a == b {
            match op {
                Op::Eq | Op::Ule => return c.mk(Node::BConst(true), 0),
                Op::Ult => return c.mk(Node::BConst(false), 0),
                _ => {}
            }
        }
        let w = match op {
            Op::Eq | Op::Ult | Op::Ule | Op::And | Op::Or => 0,
            _ => c.widths[a as usize],
        };
        if !matches!(op, Op::And | Op::Or) {
            assert_eq!(c.widths[a as usize], c.widths[b as usize], "width mismatch in {:?}", op);
        }
        c.mk(Node::Bin(op, a, b), w)
    })
}

pub fn not(a: T) -> T {
    with(|c| match c.arena[a as usize] {
        Node::BConst(b) => c.mk(Node::BConst(!b), 0),
        _ => c.mk(Node::Not(a), 0),
    })
}

pub fn ite(cnd: T, a: T, b: T) -> T {
    with(|c| match c.arena[cnd as usize] {
        Node::BConst(true) => a,
        Node::BConst(false) => b,
        _ => {
            let w = c.widths[a as usize];
            c.mk(Node::Ite(cnd, a, b), w)
        }
    })
}

pub fn as_const(t: T) -> Option<U256> {
    with(|c| match &c.arena[t as usize] {
        Node::Const(v, _) => Some(*v),
        Node::BConst(b) => Some(U256::from(*b as u8)),
        _ => None,
    })
}

pub fn term_string(t: T) -> String {
    with(|c| c.smt(t))
}

/// value of a term under the current model (refreshing it if stale)
pub fn model_value(t: T) -> U256 {
    with(|c| {
        if c.mode == Mode::Explore && !c.model_valid {
            c.refresh_model();
        }
        c.eval(t)
    })
}

pub fn note(s: impl Into<String>) {
    let s = s.into();
    with(|c| c.notes.push(s));
}

pub fn cover(name: &str) {
    with(|c| *c.rep.covers.entry(name.to_string()).or_default() += 1);
}

pub fn is_concrete_mode() -> bool {
    with(|c| c.mode == Mode::Concrete)
}

// ---------- decisions ----------

/// Fork on a boolean term.  Returns the outcome on this path.
pub fn decide(cond: T) -> bool {
    enum Act {
        Ret(bool),
        Defer,
        Budget,
    }
    let act = with(|c| {
        if let Node::BConst(b) = c.arena[cond as usize] {
            return Act::Ret(b);
        }
        if c.mode == Mode::Concrete {
            let v = c.eval(cond) != U256::ZERO;
            return Act::Ret(v);
        }
        if let Some(b) = c.syntactic(cond) {
            c.syntactic_hits += 1;
            return Act::Ret(b);
        }
        if c.pos < c.trail.len() {
            let dir = c.trail[c.pos].taken != 0;
            debug_assert!(c.trail[c.pos].kind == Kind::Decide, "nondeterministic replay");
            c.pos += 1;
            let t = if dir { cond } else { c.mk(Node::Not(cond), 0) };
            if c.model_valid && c.eval(t) == U256::ZERO {
                c.model_valid = false;
            }
            c.assert_term(t);
            return Act::Ret(dir);
        }
        // new node
        if !c.model_valid && !c.refresh_model() {
            // PC should be satisfiable here; unknown -> treat as inconclusive, prune
            if std::env::var("SYMRT_DEBUG").is_ok() {
                eprintln!("PC unsat/unknown at new node; notes={:?} trail={:?}", c.notes, c.trail);
                for t in &c.pc { eprintln!("   {}", c.smt(*t)); }
            }
            return Act::Budget;
        }
        let v = c.eval(cond) != U256::ZERO;
        let ncond = c.mk(Node::Not(cond), 0);
        let (side, other) = if v { (cond, ncond) } else { (ncond, cond) };
        let other_feasible = c.query(other);
        c.rep.solver_decided_nodes += 1;
        let mut remaining = vec![];
        match other_feasible {
            Some(true) => {
                c.rep.both_feasible_nodes += 1;
                remaining.push((!v) as u32);
            }
            Some(false) => {}
            None => {}
        }
        // work is only handed to other threads at `choice` points of the harness, never here: unwinding out of a
        // comparison that runs inside a std collection operation (BTreeMap::split_off, sort, ...) can leave that
        // collection in a state whose destructor panics, which would abort the process
        c.trail.push(Entry { taken: v as u32, remaining, kind: Kind::Decide, val: None });
        c.pos += 1;
        c.assert_term(side);
        Act::Ret(v)
    });
    match act {
        Act::Ret(b) => b,
        Act::Defer => std::panic::resume_unwind(Box::new(Deferred)),
        Act::Budget => std::panic::resume_unwind(Box::new(Budget)),
    }
}

/// Fork over n unconstrained alternatives (no solver call).
pub fn choice(n: usize) -> usize {
    assert!(n >= 1);
    if n == 1 {
        return 0;
    }
    enum Act {
        Ret(usize),
        Defer,
    }
    let act = with(|c| {
        if c.pos < c.trail.len() {
            let v = c.trail[c.pos].taken as usize;
            debug_assert!(c.trail[c.pos].kind == Kind::Choice, "nondeterministic replay");
            c.pos += 1;
            return Act::Ret(v);
        }
        if c.mode == Mode::Concrete {
            panic!("concrete replay ran out of recorded choices");
        }
        if let Some(d) = c.split_depth {
            if c.trail.len() >= d {
                let base: Vec<Entry> = c.trail.iter().map(|e| e.frozen()).collect();
                for i in 0..n {
                    let mut p = base.clone();
                    p.push(Entry { taken: i as u32, remaining: vec![], kind: Kind::Choice, val: None });
                    c.deferred_prefixes.push(p);
                }
                return Act::Defer;
            }
        }
        c.rep.choice_forks += (n - 1) as u64;
        c.trail.push(Entry {
            taken: 0,
            remaining: (1..n as u32).rev().collect(),
            kind: Kind::Choice,
            val: None,
        });
        c.pos += 1;
        Act::Ret(0)
    });
    match act {
        Act::Ret(v) => v,
        Act::Defer => std::panic::resume_unwind(Box::new(Deferred)),
    }
}

/// Pin a term to the value it has in the current model (recorded in the trail so
/// that re-executions of the prefix pin it to the same value).  This is an
/// under-approximation: only that one value is explored.
pub fn concretize_by_model(t: T) -> U256 {
    with(|c| {
        if let Node::Const(v, _) = c.arena[t as usize] {
            return v;
        }
        if c.mode == Mode::Concrete {
            return c.eval(t);
        }
        let w = c.widths[t as usize];
        if c.pos < c.trail.len() {
            let v = c.trail[c.pos].val.expect("nondeterministic replay (concretize)");
            c.pos += 1;
            let k = c.mk(Node::Const(v, w), w);
            let e = c.mk(Node::Bin(Op::Eq, t, k), 0);
            if c.model_valid && c.eval(e) == U256::ZERO {
                c.model_valid = false;
            }
            c.assert_term(e);
            return v;
        }
        if !c.model_valid {
            c.refresh_model();
        }
        let v = c.eval(t);
        let k = c.mk(Node::Const(v, w), w);
        let e = c.mk(Node::Bin(Op::Eq, t, k), 0);
        c.trail.push(Entry { taken: 0, remaining: vec![], kind: Kind::Concrete, val: Some(v) });
        c.pos += 1;
        c.assert_term(e);
        v
    })
}

pub fn choose_bool() -> bool {
    choice(2) == 1
}

/// Constrain the rest of the path; prunes the path if infeasible.
pub fn assume(cond: T) {
    let ok = with(|c| {
        if let Node::BConst(b) = c.arena[cond as usize] {
            return b;
        }
        if c.mode == Mode::Concrete {
            let v = c.eval(cond) != U256::ZERO;
            if v {
                c.pc.push(cond);
            }
            return v;
        }
        if c.pos < c.trail.len() {
            if c.model_valid && c.eval(cond) == U256::ZERO {
                c.model_valid = false;
            }
            c.assert_term(cond);
            return true;
        }
        if c.model_valid && c.eval(cond) != U256::ZERO {
            c.assert_term(cond);
            return true;
        }
        match c.query(cond) {
            Some(true) => {
                c.assert_term(cond);
                c.model_valid = false;
                true
            }
            _ => false,
        }
    });
    if !ok {
        std::panic::resume_unwind(Box::new(Pruned));
    }
}

pub fn prune() -> ! {
    std::panic::resume_unwind(Box::new(Pruned))
}

/// Discharge an obligation: PC => cond.  Records a violation with a model otherwise.
pub fn check(name: &str, cond: T) -> bool {
    with(|c| {
        *c.rep.checks_by_name.entry(name.to_string()).or_default() += 1;
        c.checks_this_path += 1;
        if let Node::BConst(b) = c.arena[cond as usize] {
            if b {
                c.rep.checks_discharged += 1;
            } else {
                if c.mode == Mode::Explore && !c.model_valid {
                    c.refresh_model();
                }
                let v = Violation {
                    check: name.to_string(),
                    detail: "assertion is constant false on this path".into(),
                    model: c.model_strings(),
                    trail: c.trail_vec(),
                    notes: c.notes.clone(),
                    replayed: None,
                };
                c.rep.push_violation(v);
            }
            return b;
        }
        if c.mode == Mode::Concrete {
            let v = c.eval(cond) != U256::ZERO;
            if v {
                c.rep.checks_discharged += 1;
            } else {
                let vi = Violation {
                    check: name.to_string(),
                    detail: format!("concrete replay: {} is false", c.smt(cond)),
                    model: c.model_strings(),
                    trail: c.trail_vec(),
                    notes: c.notes.clone(),
                    replayed: None,
                };
                c.rep.push_violation(vi);
            }
            return v;
        }
        if c.syntactic(cond) == Some(true) {
            c.rep.checks_discharged += 1;
            c.rep.discharged_syntactically += 1;
            return true;
        }
        let ncond = c.mk(Node::Not(cond), 0);
        c.rep.final_queries += 1;
        let s = c.smt(ncond);
        c.rep.solver_queries += 1;
        let vars = c.path_vars.clone();
        let mut r = c.timed(|sv| sv.check_with_model(&s, &vars));
        if r.is_none() {
            c.rep.fallback_queries += 1;
            let script = c.standalone(Some(&s));
            let t0 = Instant::now();
            r = solver::oneshot_robust(&script, &vars, true);
            c.rep.fallback_time_s += t0.elapsed().as_secs_f64();
        }
        // optional cross-check with z3
        let do_cross = c.crosscheck_every > 0
            && (c.rep.final_queries + c.seed) % c.crosscheck_every == 0
            || matches!(r, Some(Some(_)));
        if do_cross {
            let mut script = String::from("(set-logic ALL)\n");
            for (n, w) in &c.path_vars {
                if *w == 0 {
                    script.push_str(&format!("(declare-const |{}| Bool)\n", n));
                } else {
                    script.push_str(&format!("(declare-const |{}| (_ BitVec {}))\n", n, w));
                }
            }
            for t in &c.pc {
                script.push_str(&format!("(assert {})\n", c.smt(*t)));
            }
            script.push_str(&format!("(assert {})\n(check-sat)\n", s));
            let z = solver::z3_oneshot(&script);
            c.rep.crosschecked += 1;
            let cv = match &r {
                Some(Some(_)) => Some(true),
                Some(None) => Some(false),
                None => None,
            };
            if z.is_some() && cv.is_some() && z != cv {
                c.rep.crosscheck_disagreements += 1;
            }
        }
        match r {
            Some(None) => {
                c.rep.checks_discharged += 1;
                true
            }
            Some(Some(m)) => {
                let saved = std::mem::replace(&mut c.model, m);
                let v = Violation {
                    check: name.to_string(),
                    detail: format!("PC /\\ {} is satisfiable", s),
                    model: c.model_strings(),
                    trail: c.trail_vec(),
                    notes: c.notes.clone(),
                    replayed: None,
                };
                c.model = saved;
                c.rep.push_violation(v);
                false
            }
            None => {
                c.rep.inconclusive += 1;
                true
            }
        }
    })
}

pub fn check_bool(name: &str, b: bool) -> bool {
    let t = bconst(b);
    check(name, t)
}

pub fn register_path_reset(f: fn()) {
    PATH_RESET.with(|r| {
        let mut r = r.borrow_mut();
        if !r.iter().any(|g| *g as usize == f as usize) {
            r.push(f)
        }
    });
}

fn reset_path_state() {
    env::reset();
    let fs: Vec<fn()> = PATH_RESET.with(|r| r.borrow().clone());
    for f in fs {
        f();
    }
}

#[derive(Clone, Debug)]
pub struct Config {
    pub max_paths: u64,
    pub threads: usize,
    pub split_depth: usize,
    pub crosscheck_every: u64,
    pub seed: u64,
    pub time_budget_s: f64,
}

impl Default for Config {
    fn default() -> Self {
        Config { max_paths: 200_000, threads: 1, split_depth: 3, crosscheck_every: 97, seed: 0, time_budget_s: 1e9 }
    }
}

fn panic_message(p: &Box<dyn std::any::Any + Send>) -> String {
    if let Some(s) = p.downcast_ref::<&str>() {
        s.to_string()
    } else if let Some(s) = p.downcast_ref::<String>() {
        s.clone()
    } else {
        "non-string panic".into()
    }
}

/// Explore all paths of `body` below the forced prefix on this thread.
fn explore_thread(
    name: &str,
    body: &(dyn Fn() + Sync),
    forced: &[Entry],
    split_depth: Option<usize>,
    cfg: &Config,
    stop: &std::sync::atomic::AtomicBool,
    global_paths: &std::sync::atomic::AtomicU64,
) -> (Report, Vec<Vec<Entry>>) {
    use std::sync::atomic::Ordering;
    with(|c| {
        c.rep = Report::default();
        c.rep.harness = name.to_string();
        c.rep.exhausted = true;
        c.trail = forced.iter().map(|e| e.frozen()).collect();
        c.forced = forced.len();
        c.split_depth = split_depth;
        c.deferred_prefixes.clear();
        c.mode = Mode::Explore;
        c.crosscheck_every = cfg.crosscheck_every;
        c.seed = cfg.seed;
    });
    let t0 = Instant::now();
    let mut first = true;
    loop {
        if stop.load(Ordering::Relaxed) {
            with(|c| c.rep.exhausted = false);
            break;
        }
        // path start
        with(|c| {
            c.paths_since_restart += 1;
            if c.paths_since_restart > c.restart_every {
                // cvc5's incremental core slows down after many push/pop rounds: start a fresh process
                c.solver = None;
                c.declared.clear();
                c.paths_since_restart = 0;
            }
            c.arena.clear();
            c.widths.clear();
            c.var_ids.clear();
        c.intern.clear();
        c.rel.clear();
        c.bounds.clear();
            c.intern.clear();
        c.rel.clear();
        c.bounds.clear();
            c.rel.clear();
            c.bounds.clear();
            c.path_vars.clear();
            c.pc.clear();
            c.auto.clear();
            c.notes.clear();
            c.checks_this_path = 0;
            c.pos = 0;
            c.model_valid = first && c.forced == 0;
            if c.model_valid {
                c.model.clear();
            }
            c.timed(|sv| sv.cmd("(push 1)"));
        });
        first = false;
        reset_path_state();
        let r = catch_unwind(AssertUnwindSafe(|| {
            // forced prefix entries may be choices or decisions; kinds are fixed up lazily
            body()
        }));
        reset_path_state();
        let mut fatal = false;
        with(|c| {
            match r {
                Ok(()) => {
                    c.rep.paths += 1;
                    if c.checks_this_path > 0 {
                        c.rep.paths_with_checks += 1;
                    }
                    if c.rep.samples.len() < 3 && !c.notes.is_empty() {
                        if !c.model_valid {
                            c.refresh_model();
                        }
                        let s = serde_json::json!({"notes": c.notes, "model": c.model_strings(),
                            "path_condition_atoms": c.pc.len()});
                        c.rep.samples.push(s);
                    }
                }
                Err(p) => {
                    if p.is::<Pruned>() {
                        c.rep.pruned += 1;
                    } else if p.is::<Deferred>() {
                        c.rep.deferred += 1;
                    } else if p.is::<Budget>() {
                        c.rep.inconclusive += 1;
                    } else {
                        // a real panic inside the code under test (or the harness)
                        c.rep.paths += 1;
                        if !c.model_valid {
                            c.refresh_model();
                        }
                        let v = Violation {
                            check: "no_panic".into(),
                            detail: format!("panic: {}", panic_message(&p)),
                            model: c.model_strings(),
                            trail: c.trail_vec(),
                            notes: c.notes.clone(),
                            replayed: None,
                        };
                        c.rep.push_violation(v);
                    }
                }
            }
            c.timed(|sv| sv.cmd("(pop 1)"));
            if c.rep.violation_counts.len() >= c.max_violations {
                c.rep.exhausted = false;
                fatal = true;
            }
            // backtrack
            c.trail.truncate(c.pos.max(c.forced).min(c.trail.len()));
            while c.trail.len() > c.forced {
                let last = c.trail.last_mut().unwrap();
                if let Some(n) = last.remaining.pop() {
                    last.taken = n;
                    break;
                } else {
                    c.trail.pop();
                }
            }
        });
        let done = with(|c| c.trail.len() <= c.forced);
        let gp = global_paths.fetch_add(1, Ordering::Relaxed) + 1;
        if fatal {
            stop.store(true, Ordering::Relaxed);
            break;
        }
        if done {
            break;
        }
        if gp >= cfg.max_paths || t0.elapsed().as_secs_f64() > cfg.time_budget_s {
            with(|c| c.rep.exhausted = false);
            stop.store(true, Ordering::Relaxed);
            break;
        }
    }
    with(|c| {
        let mut rep = std::mem::take(&mut c.rep);
        rep.wall_s = t0.elapsed().as_secs_f64();
        (rep, std::mem::take(&mut c.deferred_prefixes))
    })
}

/// Explore `body` exhaustively (within cfg budgets), optionally in parallel.
pub fn explore(name: &str, body: &(dyn Fn() + Sync), cfg: &Config) -> Report {
    use std::sync::atomic::{AtomicBool, AtomicU64};
    silence_panics();
    let t0 = Instant::now();
    let stop = AtomicBool::new(false);
    let gp = AtomicU64::new(0);
    if cfg.threads <= 1 {
        let (mut rep, _) = explore_thread(name, body, &[], None, cfg, &stop, &gp);
        rep.wall_s = t0.elapsed().as_secs_f64();
        finish_thread();
        return rep;
    }
    // master: truncated exploration producing prefixes
    let (mut rep, prefixes) = explore_thread(name, body, &[], Some(cfg.split_depth), cfg, &stop, &gp);
    finish_thread();
    let queue = std::sync::Mutex::new(prefixes);
    let reports = std::sync::Mutex::new(Vec::<Report>::new());
    std::thread::scope(|s| {
        for _ in 0..cfg.threads {
            s.spawn(|| {
                loop {
                    let p = { queue.lock().unwrap().pop() };
                    let Some(p) = p else { break };
                    let (r, _) = explore_thread(name, body, &p, None, cfg, &stop, &gp);
                    reports.lock().unwrap().push(r);
                    if stop.load(std::sync::atomic::Ordering::Relaxed) {
                        break;
                    }
                }
                finish_thread();
            });
        }
    });
    let leftover = queue.lock().unwrap().len();
    for r in reports.into_inner().unwrap() {
        rep.merge(r);
    }
    if leftover > 0 {
        rep.exhausted = false;
    }
    rep.wall_s = t0.elapsed().as_secs_f64();
    rep
}

fn finish_thread() {
    with(|c| {
        c.solver = None;
        c.declared.clear();
    });
}

/// Re-execute `body` once, without a solver: variables take the model's values,
/// `choice` follows the recorded trail.  Returns the violations seen.
pub fn replay_concrete(body: &(dyn Fn() + Sync), v: &Violation) -> Vec<Violation> {
    silence_panics();
    with(|c| {
        c.rep = Report::default();
        c.mode = Mode::Concrete;
        c.arena.clear();
        c.widths.clear();
        c.var_ids.clear();
        c.intern.clear();
        c.rel.clear();
        c.bounds.clear();
        c.path_vars.clear();
        c.pc.clear();
        c.auto.clear();
        c.notes.clear();
        c.pos = 0;
        c.forced = 0;
        c.split_depth = None;
        c.model.clear();
        for (k, s) in &v.model {
            let val = if s == "true" {
                U256::from(1u8)
            } else if s == "false" {
                U256::ZERO
            } else if let Some(h) = s.strip_prefix("0x") {
                U256::from_str_radix(h, 16).unwrap()
            } else {
                U256::from_str_radix(s, 10).unwrap()
            };
            c.model.insert(k.clone(), val);
        }
        c.model_valid = true;
        // only choices are replayed from the trail; decisions are evaluated
        c.trail = v
            .trail
            .iter()
            .filter(|(_, is_choice)| *is_choice)
            .map(|(t, _)| Entry { taken: *t, remaining: vec![], kind: Kind::Choice, val: None })
            .collect();
    });
    reset_path_state();
    let r = catch_unwind(AssertUnwindSafe(|| body()));
    reset_path_state();
    with(|c| {
        if let Err(p) = r {
            if !(p.is::<Pruned>() || p.is::<Deferred>() || p.is::<Budget>()) {
                let vi = Violation {
                    check: "no_panic".into(),
                    detail: format!("panic: {}", panic_message(&p)),
                    model: c.model_strings(),
                    trail: vec![],
                    notes: c.notes.clone(),
                    replayed: None,
                };
                c.rep.push_violation(vi);
            } else if p.is::<Pruned>() {
                let vi = Violation { check: "__pruned__".into(), ..Default::default() };
                c.rep.push_violation(vi);
            }
        }
        c.mode = Mode::Explore;
        c.trail.clear();
        std::mem::take(&mut c.rep.violations)
    })
}

/// explore + replay every violation concretely; sets `replayed`.
pub fn run(name: &str, body: &(dyn Fn() + Sync), cfg: &Config) -> Report {
    let mut rep = explore(name, body, cfg);
    let mut vs = std::mem::take(&mut rep.violations);
    for v in vs.iter_mut() {
        let again = replay_concrete(body, v);
        v.replayed = Some(again.iter().any(|a| a.check == v.check));
    }
    rep.violations = vs;
    rep
}

pub fn silence_panics() {
    use std::sync::Once;
    static ONCE: Once = Once::new();
    ONCE.call_once(|| {
        let verbose = std::env::var("SYMRT_VERBOSE_PANICS").is_ok();
        let prev = std::panic::take_hook();
        std::panic::set_hook(Box::new(move |info| {
            if verbose {
                prev(info);
            }
        }));
    });
}
