//! Pipes to the SMT solvers.  cvc5 (incremental) is the working back end;
//! z3 (fresh process per query) is the cross-check.
use ruint::aliases::U256;
use std::collections::HashMap;
use std::io::{BufRead, BufReader, Write};
use std::process::{Child, ChildStdin, ChildStdout, Command, Stdio};

pub struct Solver {
    child: Child,
    stdin: ChildStdin,
    stdout: BufReader<ChildStdout>,
    pub log: Option<std::fs::File>,
}

impl Drop for Solver {
    fn drop(&mut self) {
        let _ = self.stdin.write_all(b"(exit)\n");
        let _ = self.child.kill();
        let _ = self.child.wait();
    }
}

impl Solver {
    pub fn spawn() -> Solver {
        let bin = std::env::var("SYMRT_CVC5").unwrap_or_else(|_| "cvc5".into());
        let extra: Vec<String> = std::env::var("SYMRT_CVC5_ARGS").map(|v| v.split_whitespace().map(|x| x.to_string()).collect()).unwrap_or_default();
        let mut child = Command::new(bin)
            .args(["--incremental", "--lang", "smt2", "--produce-models", "--tlimit-per=2500"])
            .args(&extra)
            .stdin(Stdio::piped())
            .stdout(Stdio::piped())
            .stderr(Stdio::null())
            .spawn()
            .expect("cannot start cvc5");
        let stdin = child.stdin.take().unwrap();
        let stdout = BufReader::new(child.stdout.take().unwrap());
        let log = std::env::var("SYMRT_SMTLOG").ok().map(|p| {
            std::fs::OpenOptions::new().create(true).append(true).open(p).unwrap()
        });
        let mut s = Solver { child, stdin, stdout, log };
        s.cmd("(set-option :global-declarations true)");
        s.cmd("(set-logic QF_BV)");
        s
    }

    pub fn cmd(&mut self, c: &str) {
        if let Some(l) = self.log.as_mut() {
            let _ = writeln!(l, "{}", c);
        }
        self.stdin.write_all(c.as_bytes()).unwrap();
        self.stdin.write_all(b"\n").unwrap();
    }

    fn read_line(&mut self) -> String {
        let mut l = String::new();
        self.stdin.flush().unwrap();
        let n = self.stdout.read_line(&mut l).unwrap();
        if n == 0 {
            return "(error \"solver died\")".into();
        }
        l.trim().to_string()
    }

    fn check_sat(&mut self) -> Option<bool> {
        self.cmd("(check-sat)");
        let l = self.read_line();
        match l.as_str() {
            "sat" => Some(true),
            "unsat" => Some(false),
            other => {
                if std::env::var("SYMRT_DEBUG").is_ok() {
                    eprintln!("solver said: {:?}", other);
                }
                None
            }
        }
    }

    /// sat(PC /\ extra)?
    pub fn check_with(&mut self, extra: &str) -> Option<bool> {
        self.cmd("(push 1)");
        self.cmd(&format!("(assert {})", extra));
        let r = self.check_sat();
        self.cmd("(pop 1)");
        r
    }

    fn get_model(&mut self, vars: &[(String, u32)]) -> HashMap<String, U256> {
        let mut m = HashMap::new();
        if vars.is_empty() {
            return m;
        }
        let mut q = String::from("(get-value (");
        for (n, _) in vars {
            q.push('|');
            q.push_str(n);
            q.push_str("| ");
        }
        q.push_str("))");
        self.cmd(&q);
        self.cmd("(echo \"__END__\")");
        let mut text = String::new();
        loop {
            let l = self.read_line();
            if l.contains("__END__") {
                break;
            }
            if l.starts_with("(error") && l.contains("solver died") {
                break;
            }
            text.push_str(&l);
            text.push(' ');
        }
        // parse pairs (|name| value)
        let bytes = text.as_bytes();
        let mut i = 0;
        while i < bytes.len() {
            if bytes[i] == b'|' {
                let j = text[i + 1..].find('|').map(|k| i + 1 + k).unwrap_or(bytes.len());
                let name = text[i + 1..j].to_string();
                let rest = text[j + 1..].trim_start();
                let val_end = rest.find(')').unwrap_or(rest.len());
                let tok = rest[..val_end].trim();
                let v = if let Some(b) = tok.strip_prefix("#b") {
                    U256::from_str_radix(b, 2).unwrap_or(U256::ZERO)
                } else if let Some(h) = tok.strip_prefix("#x") {
                    U256::from_str_radix(h, 16).unwrap_or(U256::ZERO)
                } else if tok == "true" {
                    U256::from(1u8)
                } else if tok == "false" {
                    U256::ZERO
                } else if let Some(r) = tok.strip_prefix("(_ bv") {
                    let d = r.split_whitespace().next().unwrap_or("0");
                    U256::from_str_radix(d, 10).unwrap_or(U256::ZERO)
                } else {
                    U256::ZERO
                };
                m.insert(name, v);
                i = j + 1 + (text[j + 1..].len() - rest.len()) + val_end;
            } else {
                i += 1;
            }
        }
        m
    }

    /// check-sat on the current stack and, if sat, a model.  Outer None = unknown.
    pub fn check_and_model(&mut self, vars: &[(String, u32)]) -> Option<Option<HashMap<String, U256>>> {
        match self.check_sat() {
            Some(true) => Some(Some(self.get_model(vars))),
            Some(false) => Some(None),
            None => None,
        }
    }

    pub fn check_with_model(&mut self, extra: &str, vars: &[(String, u32)]) -> Option<Option<HashMap<String, U256>>> {
        self.cmd("(push 1)");
        self.cmd(&format!("(assert {})", extra));
        let r = self.check_and_model(vars);
        self.cmd("(pop 1)");
        r
    }
}

/// One fresh z3 process for one script ending in (check-sat).
pub fn z3_oneshot(script: &str) -> Option<bool> {
    let bin = std::env::var("SYMRT_Z3").unwrap_or_else(|_| "/usr/bin/z3".into());
    let mut child = Command::new(bin)
        .args(["-in", "-T:10"])
        .stdin(Stdio::piped())
        .stdout(Stdio::piped())
        .stderr(Stdio::null())
        .spawn()
        .ok()?;
    child.stdin.take()?.write_all(script.as_bytes()).ok()?;
    let out = child.wait_with_output().ok()?;
    let s = String::from_utf8_lossy(&out.stdout);
    if s.contains("(error") {
        return None;
    }
    match s.lines().next().map(|l| l.trim()) {
        Some("sat") => Some(true),
        Some("unsat") => Some(false),
        _ => None,
    }
}

/// Fallback for an `unknown` answer of the incremental solver: the whole query in a fresh,
/// non-incremental process (cvc5 first, then z3-new, then z3).  Outer None = still unknown.
pub fn oneshot_robust(script_decls_asserts: &str, vars: &[(String, u32)], want_model: bool) -> Option<Option<HashMap<String, U256>>> {
    let mut script = String::from("(set-option :produce-models true)\n(set-logic QF_BV)\n");
    script.push_str(script_decls_asserts);
    script.push_str("(check-sat)\n");
    if want_model && !vars.is_empty() {
        script.push_str("(get-value (");
        for (n, _) in vars {
            script.push('|');
            script.push_str(n);
            script.push_str("| ");
        }
        script.push_str("))\n");
    }
    if let Ok(dir) = std::env::var("SYMRT_DUMP_FALLBACK") {
        static N: std::sync::atomic::AtomicU64 = std::sync::atomic::AtomicU64::new(0);
        let n = N.fetch_add(1, std::sync::atomic::Ordering::Relaxed);
        let _ = std::fs::write(format!("{}/fb_{}_{}.smt2", dir, std::process::id(), n), &script);
    }
    let attempts: Vec<(String, Vec<&str>)> = vec![
        ("z3-new".into(), vec!["-in", "-T:10"]),
        (std::env::var("SYMRT_CVC5").unwrap_or_else(|_| "cvc5".into()), vec!["--lang", "smt2", "--tlimit=20000", "--solve-bv-as-int=sum"]),
        (std::env::var("SYMRT_CVC5").unwrap_or_else(|_| "cvc5".into()), vec!["--lang", "smt2", "--tlimit=30000"]),
        (std::env::var("SYMRT_Z3").unwrap_or_else(|_| "/usr/bin/z3".into()), vec!["-in", "-T:60"]),
        ("z3-new".into(), vec!["-in", "-T:240"]),
    ];
    for (bin, args) in attempts {
        let Ok(mut child) = Command::new(&bin).args(&args).stdin(Stdio::piped()).stdout(Stdio::piped()).stderr(Stdio::null()).spawn() else { continue };
        if let Some(mut si) = child.stdin.take() {
            let _ = si.write_all(script.as_bytes());
        }
        let Ok(out) = child.wait_with_output() else { continue };
        let text = String::from_utf8_lossy(&out.stdout).to_string();
        let first = text.lines().next().map(|l| l.trim().to_string()).unwrap_or_default();
        if first == "unsat" {
            // (get-value after unsat prints an error line; irrelevant)
            return Some(None);
        }
        if first == "sat" && !text.contains("(error") {
            let mut m = HashMap::new();
            if want_model {
                let rest: String = text.lines().skip(1).collect::<Vec<_>>().join(" ");
                m = parse_model(&rest);
            }
            return Some(Some(m));
        }
    }
    None
}

pub fn parse_model(text: &str) -> HashMap<String, U256> {
    let mut m = HashMap::new();
    let bytes = text.as_bytes();
    let mut i = 0;
    while i < bytes.len() {
        if bytes[i] == b'|' {
            let j = text[i + 1..].find('|').map(|k| i + 1 + k).unwrap_or(bytes.len());
            let name = text[i + 1..j].to_string();
            let rest = text[j + 1..].trim_start();
            let val_end = rest.find(')').unwrap_or(rest.len());
            let tok = rest[..val_end].trim();
            let v = if let Some(b) = tok.strip_prefix("#b") {
                U256::from_str_radix(b, 2).unwrap_or(U256::ZERO)
            } else if let Some(h) = tok.strip_prefix("#x") {
                U256::from_str_radix(h, 16).unwrap_or(U256::ZERO)
            } else if tok == "true" {
                U256::from(1u8)
            } else if tok == "false" {
                U256::ZERO
            } else if let Some(r) = tok.strip_prefix("(_ bv") {
                let d = r.split_whitespace().next().unwrap_or("0");
                U256::from_str_radix(d, 10).unwrap_or(U256::ZERO)
            } else {
                U256::ZERO
            };
            m.insert(name, v);
            i = j + 1 + (text[j + 1..].len() - rest.len()) + val_end;
        } else {
            i += 1;
        }
    }
    m
}
