//! Symbolic scalar types whose comparisons fork through the solver.
use crate::{bin, decide, fresh, fresh_auto, ite, konst, not, Op, T};
use ruint::aliases::U256;
use std::cmp::Ordering;

#[derive(Clone, Copy)]
pub struct SymU<const W: u32>(pub T);

#[derive(Clone, Copy)]
pub struct SymBool(pub T);

impl SymBool {
    pub fn fresh(name: &str) -> Self {
        SymBool(fresh(name, 0))
    }
    pub fn fresh_auto(prefix: &str) -> Self {
        SymBool(fresh_auto(prefix, 0))
    }
    pub fn konst(b: bool) -> Self {
        SymBool(crate::bconst(b))
    }
    pub fn and(self, o: SymBool) -> SymBool {
        SymBool(bin(Op::And, self.0, o.0))
    }
    pub fn or(self, o: SymBool) -> SymBool {
        SymBool(bin(Op::Or, self.0, o.0))
    }
    pub fn not(self) -> SymBool {
        SymBool(not(self.0))
    }
    pub fn implies(self, o: SymBool) -> SymBool {
        self.not().or(o)
    }
    pub fn iff(self, o: SymBool) -> SymBool {
        SymBool(bin(Op::Eq, self.0, o.0))
    }
    /// fork
    pub fn get(self) -> bool {
        decide(self.0)
    }
}

impl<const W: u32> SymU<W> {
    pub fn fresh(name: &str) -> Self {
        SymU(fresh(name, W))
    }
    pub fn fresh_auto(prefix: &str) -> Self {
        SymU(fresh_auto(prefix, W))
    }
    pub fn konst(v: u64) -> Self {
        SymU(konst(U256::from(v), W))
    }
    pub fn konst_u256(v: U256) -> Self {
        SymU(konst(v, W))
    }
    pub fn max_value() -> Self {
        SymU(konst(U256::MAX, W))
    }
    pub fn as_const(self) -> Option<U256> {
        crate::as_const(self.0)
    }
    pub fn seq(self, o: Self) -> SymBool {
        SymBool(bin(Op::Eq, self.0, o.0))
    }
    pub fn slt(self, o: Self) -> SymBool {
        SymBool(bin(Op::Ult, self.0, o.0))
    }
    pub fn sle(self, o: Self) -> SymBool {
        SymBool(bin(Op::Ule, self.0, o.0))
    }
    pub fn sgt(self, o: Self) -> SymBool {
        o.slt(self)
    }
    pub fn sge(self, o: Self) -> SymBool {
        o.sle(self)
    }
    pub fn select(c: SymBool, a: Self, b: Self) -> Self {
        SymU(ite(c.0, a.0, b.0))
    }
    pub fn wrapping_add(self, o: Self) -> Self {
        SymU(bin(Op::Add, self.0, o.0))
    }
    pub fn wrapping_sub(self, o: Self) -> Self {
        SymU(bin(Op::Sub, self.0, o.0))
    }
    pub fn wrapping_mul(self, o: Self) -> Self {
        SymU(bin(Op::Mul, self.0, o.0))
    }
    pub fn udiv(self, o: Self) -> Self {
        SymU(bin(Op::UDiv, self.0, o.0))
    }
    pub fn urem(self, o: Self) -> Self {
        SymU(bin(Op::URem, self.0, o.0))
    }
    /// value under the current model (for reporting / concretisation)
    pub fn model_value(self) -> U256 {
        crate::model_value(self.0)
    }
    /// pin to the current model's value (recorded; under-approximation)
    pub fn concretize_by_model(self) -> U256 {
        crate::concretize_by_model(self.0)
    }
    /// fork over [lo, hi]: returns a concrete value v with self == v on this path
    pub fn concretize(self, lo: u64, hi: u64) -> u64 {
        for v in lo..hi {
            if self.seq(Self::konst(v)).get() {
                return v;
            }
        }
        crate::assume(self.seq(Self::konst(hi)).0);
        hi
    }
}

impl<const W: u32> PartialEq for SymU<W> {
    fn eq(&self, o: &Self) -> bool {
        decide(bin(Op::Eq, self.0, o.0))
    }
}
impl<const W: u32> Eq for SymU<W> {}
impl<const W: u32> PartialOrd for SymU<W> {
    fn partial_cmp(&self, o: &Self) -> Option<Ordering> {
        Some(self.cmp(o))
    }
    fn lt(&self, o: &Self) -> bool {
        decide(bin(Op::Ult, self.0, o.0))
    }
    fn le(&self, o: &Self) -> bool {
        decide(bin(Op::Ule, self.0, o.0))
    }
    fn gt(&self, o: &Self) -> bool {
        decide(bin(Op::Ult, o.0, self.0))
    }
    fn ge(&self, o: &Self) -> bool {
        decide(bin(Op::Ule, o.0, self.0))
    }
}
impl<const W: u32> Ord for SymU<W> {
    fn cmp(&self, o: &Self) -> Ordering {
        if decide(bin(Op::Ult, self.0, o.0)) {
            Ordering::Less
        } else if decide(bin(Op::Eq, self.0, o.0)) {
            Ordering::Equal
        } else {
            Ordering::Greater
        }
    }
}
impl<const W: u32> std::ops::BitXor for SymU<W> {
    type Output = Self;
    fn bitxor(self, o: Self) -> Self {
        SymU(bin(Op::Xor, self.0, o.0))
    }
}
impl<const W: u32> std::ops::Add for SymU<W> {
    type Output = Self;
    fn add(self, o: Self) -> Self {
        SymU(bin(Op::Add, self.0, o.0))
    }
}
impl<const W: u32> std::ops::Sub for SymU<W> {
    type Output = Self;
    fn sub(self, o: Self) -> Self {
        SymU(bin(Op::Sub, self.0, o.0))
    }
}
impl<const W: u32> std::fmt::Debug for SymU<W> {
    fn fmt(&self, f: &mut std::fmt::Formatter<'_>) -> std::fmt::Result {
        write!(f, "Sym<{}>({})", W, crate::term_string(self.0))
    }
}
impl<const W: u32> std::fmt::Display for SymU<W> {
    fn fmt(&self, f: &mut std::fmt::Formatter<'_>) -> std::fmt::Result {
        write!(f, "Sym<{}>", W)
    }
}
