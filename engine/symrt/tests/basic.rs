use symrt::*;

fn body_sort() {
    let mut v: Vec<SymU<256>> = (0..4).map(|i| SymU::<256>::fresh(&format!("x{}", i))).collect();
    let orig = v.clone();
    v.sort();
    for i in 0..3 {
        check("sorted", v[i].sle(v[i + 1]).0);
    }
    // max is >= all
    let m = *orig.iter().max().unwrap();
    for o in &orig {
        check("max", o.sle(m).0);
    }
    note("sorted 4");
}

fn body_bug() {
    let a = SymU::<64>::fresh("a");
    let b = SymU::<64>::fresh("b");
    let k = choice(3);
    if k == 2 && a < b {
        // wrong claim: a+1 <= b holds, but a+2 <= b does not
        check("plus2", a.wrapping_add(SymU::konst(2)).sle(b).0);
    }
}

#[test]
fn sort_paths() {
    let cfg = Config { threads: 1, ..Default::default() };
    let r = run("sort", &body_sort, &cfg);
    println!("{}", r.to_json());
    assert!(r.violations.is_empty());
    assert!(r.exhausted);
    assert!(r.paths >= 24, "paths {}", r.paths);
    let cfg = Config { threads: 4, split_depth: 2, ..Default::default() };
    let r2 = run("sort", &body_sort, &cfg);
    println!("{}", r2.to_json());
    assert_eq!(r.paths, r2.paths);
}

#[test]
fn finds_bug() {
    let cfg = Config::default();
    let r = run("bug", &body_bug, &cfg);
    println!("{}", r.to_json());
    assert_eq!(r.violations.len(), 1);
    assert_eq!(r.violations[0].replayed, Some(true));
}
