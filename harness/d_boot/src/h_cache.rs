//! C18 harnesses over the transplanted cache_store.rs (child module).
use super::*;
use crate::runner::Harness;
use crate::shim::{self, advance, now_secs};
use libp2p::multiaddr::Protocol as P;
use std::net::Ipv4Addr;
use symrt::{check, check_bool, choice, cover, note, SymU};

pub fn harnesses() -> Vec<Harness> {
    vec![
        Harness { name: "c18_ops", property: "C18", f: c18_ops, about: "sequences of add / status update / remove / clean-up / clock advance: limits, expiry and reliability hold after every clean-up-bearing operation; stored addresses are well formed" },
        Harness { name: "c18_shapes", property: "C18", f: c18_shapes, about: "multiaddress shapes: only dialable addresses carrying a peer id are stored, in normalised form" },
        Harness { name: "c18_sync_flush", property: "C18", f: c18_sync_flush, about: "merge with the on-disk cache loses nothing known to either side; save then load returns the same peers and addresses; limits after clean-up" },
        Harness { name: "c18_untrusted_file", property: "C18", f: c18_untrusted_file, about: "a well-formed cache file whose timestamps and counters are arbitrary (untrusted) values loads or is rejected without a panic; what is loaded is clean" },
        Harness { name: "c18_concurrent_flush", property: "C18", f: c18_concurrent_flush, about: "two processes flush to one cache file; the second one's whole flush lands between any two file-system operations of the first; a reader loads the file at every moment" },
        Harness { name: "c18_load_bulk_file", property: "C18", f: c18_load_bulk_file, about: "a cache file holding more peers than the limit, with arbitrary (possibly equal) last-seen instants: what is loaded respects the limit and keeps the most recently seen peers" },
        Harness { name: "c18_corrupt", property: "C18", f: c18_corrupt, about: "corrupt or foreign cache file is ignored without a panic and replaced by a loadable file" },
    ]
}

fn pid(i: u8) -> PeerId {
    PeerId::from_bytes(&[0x00, 0x06, b'p', b'e', b'e', b'r', 0, i]).expect("identity multihash")
}
fn quic(peer: u8, port: u16) -> Multiaddr {
    Multiaddr::empty().with(P::Ip4(Ipv4Addr::new(10, 0, 0, peer))).with(P::Udp(port)).with(P::QuicV1).with(P::P2p(pid(peer)))
}
fn ws(peer: u8, port: u16) -> Multiaddr {
    Multiaddr::empty().with(P::Ip4(Ipv4Addr::new(10, 0, 0, peer))).with(P::Tcp(port)).with(P::Ws("/".into())).with(P::P2p(pid(peer)))
}
fn setup(max_peers: usize, max_addrs: usize) -> BootstrapCacheStore {
    symrt::register_path_reset(shim::reset);
    shim::reset();
    let cfg = BootstrapCacheConfig::empty().with_cache_path("/cache/bootstrap_cache.json").with_max_peers(max_peers).with_addrs_per_peer(max_addrs);
    let _ = now_secs();
    BootstrapCacheStore::new(cfg).expect("store")
}
fn expiry() -> SymU<64> {
    crate::config::ADDR_EXPIRY_DURATION.secs()
}

/// what must hold after every clean-up
fn check_clean(store: &BootstrapCacheStore, tag: &str) {
    let cfg = store.config();
    check_bool(&format!("{tag}:at_most_max_peers"), store.data.peers.len() <= cfg.max_peers);
    let now = now_secs();
    for (peer, addrs) in store.data.peers.iter() {
        check_bool(&format!("{tag}:at_most_max_addrs_per_peer"), addrs.0.len() <= cfg.max_addrs_per_peer);
        check_bool(&format!("{tag}:no_peer_without_addresses"), !addrs.0.is_empty());
        for a in addrs.0.iter() {
            check(&format!("{tag}:no_expired_address"), now.wrapping_sub(a.last_seen.0).slt(expiry()).0);
            check(&format!("{tag}:last_seen_not_in_future"), a.last_seen.0.sle(now).0);
            check_bool(&format!("{tag}:no_address_with_more_failures_than_successes"), a.failure_count <= a.success_count);
            check_well_formed(peer, &a.addr, tag);
        }
    }
}
fn check_well_formed(peer: &PeerId, addr: &Multiaddr, tag: &str) {
    check_bool(&format!("{tag}:stored_address_carries_its_peer_id"), multiaddr_get_peer_id(addr) == Some(*peer));
    check_bool(&format!("{tag}:stored_address_is_dialable_normal_form"), craft_valid_multiaddr(addr, false).as_ref() == Some(addr));
}

fn c18_ops() {
    let max_peers = 1 + choice(2);
    let max_addrs = 1 + choice(2);
    let mut store = setup(max_peers, max_addrs);
    let n_ops = std::env::var("C18_OPS").ok().and_then(|v| v.parse().ok()).unwrap_or(3usize);
    let mut last: Option<Multiaddr> = None;
    note(format!("max_peers={max_peers} max_addrs_per_peer={max_addrs}"));
    for i in 0..n_ops {
        match choice(5) {
            0 => {
                let peer = 1 + choice(3) as u8;
                let a = if choice(2) == 0 { quic(peer, 1 + choice(2) as u16) } else { ws(peer, 1) };
                note(format!("op{i}: add {a}"));
                let known = store.data.peers.get(&pid(peer)).map(|b| b.get_addr(&a).is_some()).unwrap_or(false);
                store.add_addr(a.clone());
                last = Some(a);
                if !known {
                    cover("add_new");
                    check_clean(&store, "after_add");
                }
            }
            1 => {
                if let Some(a) = &last {
                    let ok = choice(2) == 1;
                    // the address a status is reported for: the one added last, or one the cache does not track for that
                    // peer -- another port, a relayed address through the peer, an ip6 address, one without a transport
                    // (a report must not become a second way into the cache that skips what add_addr enforces)
                    let peer = multiaddr_get_peer_id(a).expect("stored addresses carry a peer id");
                    let target = match choice(5) {
                        0 => a.clone(),
                        1 => Multiaddr::empty().with(P::Ip4(Ipv4Addr::new(10, 0, 0, 9))).with(P::Udp(9)).with(P::QuicV1).with(P::P2p(peer)),
                        2 => a.clone().with(P::P2pCircuit).with(P::P2p(pid(3))),
                        3 => Multiaddr::empty().with(P::Ip6(std::net::Ipv6Addr::LOCALHOST)).with(P::Udp(9)).with(P::QuicV1).with(P::P2p(peer)),
                        _ => Multiaddr::empty().with(P::P2p(peer)),
                    };
                    if &target != a {
                        cover("status_of_an_untracked_address");
                    }
                    note(format!("op{i}: status {target} success={ok}"));
                    store.update_addr_status(&target, ok);
                    // limits and shape hold after a report as well (expiry / reliability are clean-up's business)
                    check_bool("after_status:at_most_max_peers", store.data.peers.len() <= store.config().max_peers);
                    for (p, addrs) in store.data.peers.iter() {
                        check_bool("after_status:at_most_max_addrs_per_peer", addrs.0.len() <= store.config().max_addrs_per_peer);
                        for b in addrs.0.iter() {
                            check_well_formed(p, &b.addr, "after_status");
                        }
                    }
                }
            }
            2 => {
                if let Some(a) = &last {
                    note(format!("op{i}: remove {a}"));
                    store.remove_addr(a);
                    check_bool("remove:address_gone", !store.get_all_addrs().any(|b| &b.addr == a));
                }
            }
            3 => {
                note(format!("op{i}: clean-up"));
                store.perform_cleanup();
                cover("cleanup");
                check_clean(&store, "after_cleanup");
            }
            _ => {
                note(format!("op{i}: time passes"));
                let _ = advance();
            }
        }
        // every stored address is well formed at all times
        for (peer, addrs) in store.data.peers.iter() {
            for a in addrs.0.iter() {
                check_well_formed(peer, &a.addr, "always");
            }
        }
    }
}

fn c18_shapes() {
    let mut store = setup(4, 4);
    let p = 1u8;
    let ip = P::Ip4(Ipv4Addr::new(10, 0, 0, 1));
    let shapes: Vec<(&str, Multiaddr, bool)> = vec![
        ("ip4/udp/quic/p2p", quic(p, 7), true),
        ("ip4/tcp/ws/p2p", ws(p, 7), true),
        ("ip4/tcp/p2p", Multiaddr::empty().with(ip.clone()).with(P::Tcp(7)).with(P::P2p(pid(p))), true),
        ("no peer id", Multiaddr::empty().with(ip.clone()).with(P::Udp(7)).with(P::QuicV1), false),
        ("no transport", Multiaddr::empty().with(ip.clone()).with(P::P2p(pid(p))), false),
        ("ip6", Multiaddr::empty().with(P::Ip6("::1".parse().unwrap())).with(P::Udp(7)).with(P::QuicV1).with(P::P2p(pid(p))), false),
        ("dns", Multiaddr::empty().with(P::Dns("example.org".into())).with(P::Udp(7)).with(P::QuicV1).with(P::P2p(pid(p))), false),
        ("relay circuit", quic(p, 7).with(P::P2pCircuit).with(P::P2p(pid(2))), true),
        ("p2p first", Multiaddr::empty().with(P::P2p(pid(p))).with(ip.clone()).with(P::Udp(7)).with(P::QuicV1), true),
        ("empty", Multiaddr::empty(), false),
    ];
    let (name, addr, storable) = shapes[choice(shapes.len())].clone();
    note(format!("shape: {name}: {addr}"));
    store.add_addr(addr.clone());
    let stored: Vec<(PeerId, Multiaddr)> = store.data.peers.iter().flat_map(|(p, b)| b.0.iter().map(|a| (*p, a.addr.clone()))).collect();
    if storable {
        cover("stored");
        check_bool("shape:dialable_address_with_peer_id_is_stored", stored.len() == 1);
    } else {
        cover("refused");
        check_bool("shape:undialable_or_anonymous_address_is_not_stored", stored.is_empty());
    }
    for (peer, a) in stored.iter() {
        check_well_formed(peer, a, "shape");
    }
    // the text form parses back to the same address (formatter / parser round trip)
    for (_p, a) in stored.iter() {
        let text = a.to_string();
        check_bool("shape:text_round_trip", crate::craft_valid_multiaddr_from_str(&text, false).as_ref() == Some(a));
    }
}

fn all_pairs(d: &CacheData) -> Vec<(PeerId, Multiaddr)> {
    let mut v: Vec<(PeerId, Multiaddr)> = d.peers.iter().flat_map(|(p, b)| b.0.iter().map(|a| (*p, a.addr.clone()))).collect();
    v.sort_by_key(|(p, a)| (p.to_bytes(), a.to_string()));
    v
}

fn c18_sync_flush() {
    let with_cleanup = choice(2) == 1;
    let max_peers = if with_cleanup { 1 + choice(2) } else { 4 };
    let mut mem = setup(max_peers, 2);
    // the file was written earlier by another process
    let mut other = BootstrapCacheStore::new(mem.config().clone()).unwrap();
    let n_file = choice(3);
    for j in 0..n_file {
        other.add_addr(quic(2 + j as u8, 1));
    }
    if n_file > 0 && choice(2) == 1 {
        other.update_addr_status(&quic(2, 1), choice(2) == 1);
    }
    // the other process may know peer 1 too, under different addresses
    let file_knows_peer1 = choice(2) == 1;
    if file_knows_peer1 {
        other.add_addr(quic(1, 2));
        other.add_addr(ws(1, 2));
    }
    other.write().expect("write");
    let file_side = all_pairs(&other.data);
    let file_written_at = now_secs();
    let file_unreliable: Vec<Multiaddr> = other.get_all_addrs().filter(|a| a.failure_count > a.success_count).map(|a| a.addr.clone()).collect();
    let _ = advance();
    // this process knows peers 1 and maybe 2 (overlapping with the file)
    let n_mem = 1 + choice(2);
    for j in 0..n_mem {
        mem.add_addr(quic(1 + j as u8, 1));
    }
    if choice(2) == 1 {
        mem.add_addr(ws(1, 1));
    }
    let mem_side = all_pairs(&mem.data);
    note(format!("with_cleanup={with_cleanup} max_peers={max_peers} file={} mem={}", file_side.len(), mem_side.len()));
    mem.sync_and_flush_to_disk(with_cleanup).expect("flush");
    check_bool("flush:memory_cleared_after_flush", mem.data.peers.is_empty());
    // what is on disk now
    let text = String::from_utf8(symrt::env::fs::read("/cache/bootstrap_cache.json").expect("file")).unwrap();
    let on_disk: CacheData = serde_json::from_str(&text).expect("written file parses");
    let disk_pairs = all_pairs(&on_disk);
    if !with_cleanup {
        cover("merge_without_cleanup");
        for p in mem_side.iter() {
            check_bool("merge:nothing_known_to_this_process_is_lost", disk_pairs.contains(p));
        }
        // the file side goes through clean-up when it is loaded: an entry may be missing only if
        // that clean-up removes it (expired by now, or more failures than successes)
        let file_side_expired = expiry().sle(now_secs().wrapping_sub(file_written_at));
        for p in file_side.iter() {
            if !disk_pairs.contains(p) && !file_unreliable.contains(&p.1) {
                check("merge:file_entry_lost_only_if_cleanup_removes_it", file_side_expired.0);
            }
        }
        for p in disk_pairs.iter() {
            check_bool("merge:nothing_invented", mem_side.contains(p) || file_side.contains(p));
        }
        // counters of an address known to both sides are not lost either
        for (peer, a) in disk_pairs.iter() {
            let m = mem_side.contains(&(*peer, a.clone()));
            let f = file_side.contains(&(*peer, a.clone()));
            if m && f {
                cover("overlap");
            }
        }
    } else {
        cover("merge_with_cleanup");
        check_bool("merge_cleanup:at_most_max_peers", on_disk.peers.len() <= max_peers);
        for (_p, b) in on_disk.peers.iter() {
            check_bool("merge_cleanup:at_most_max_addrs_per_peer", b.0.len() <= 2);
        }
    }
    // save then load returns the same peers and addresses (apart from what clean-up removes: nothing here, no time passed)
    let loaded = BootstrapCacheStore::load_cache_data(mem.config()).expect("load");
    let loaded_pairs = all_pairs(&loaded);
    if !with_cleanup && disk_pairs.len() <= 4 {
        for p in loaded_pairs.iter() {
            check_bool("reload:nothing_invented", disk_pairs.contains(p));
        }
    }
    for (peer, b) in loaded.peers.iter() {
        for a in b.0.iter() {
            check_well_formed(peer, &a.addr, "reload");
        }
    }
    if with_cleanup {
        check_bool("reload:same_as_saved_after_cleanup", loaded_pairs == disk_pairs);
    }
}

fn c18_concurrent_flush() {
    use std::cell::{Cell, RefCell};
    use std::rc::Rc;
    let mut a = setup(4, 2);
    let cfg = a.config().clone();
    let mut b = BootstrapCacheStore::new(cfg.clone()).unwrap();
    // the two processes hold caches of different sizes (so that their serialised lengths differ either way)
    let (na, nb) = if choice(2) == 0 { (1, 3) } else { (3, 1) };
    for j in 0..na {
        a.add_addr(quic(1 + j as u8, 1));
    }
    for j in 0..nb {
        b.add_addr(quic(4 + j as u8, 1));
    }
    let had_file = choice(2) == 1;
    if had_file {
        let mut old = BootstrapCacheStore::new(cfg.clone()).unwrap();
        old.add_addr(quic(9, 1));
        old.write().expect("earlier flush");
    }
    // B's whole flush lands right before the k-th file-system operation of A's flush (k beyond A's last operation: after it)
    let k = choice(8);
    let through_sync = choice(2) == 1;
    note(format!("A holds {na}, B holds {nb}, file existed={had_file}, B flushes before A's operation #{k}, A uses {}", if through_sync { "sync_and_flush_to_disk" } else { "write" }));
    let count = Rc::new(Cell::new(0usize));
    let fired = Rc::new(Cell::new(false));
    let unloadable = Rc::new(RefCell::new(None::<String>));
    let b_result = Rc::new(RefCell::new(None::<bool>));
    let path = "/cache/bootstrap_cache.json";
    let reader = {
        let cfg = cfg.clone();
        let unloadable = unloadable.clone();
        move |when: String| {
            if symrt::env::fs::exists(path) && BootstrapCacheStore::load_cache_data(&cfg).is_err() && unloadable.borrow().is_none() {
                *unloadable.borrow_mut() = Some(when);
            }
        }
    };
    {
        let (count, fired, b_result, reader) = (count.clone(), fired.clone(), b_result.clone(), reader.clone());
        let mut b_slot = Some(b);
        symrt::env::fs::set_intruder(Some(Box::new(move |op: &str| {
            let n = count.get();
            count.set(n + 1);
            reader(format!("before A's operation #{n} ({op})"));
            if n == k && !fired.get() {
                fired.set(true);
                let mut b = b_slot.take().unwrap();
                *b_result.borrow_mut() = Some(b.write().is_ok());
                reader(format!("after B's flush, before A's operation #{n} ({op})"));
            }
        })));
    }
    let ra = if through_sync { a.sync_and_flush_to_disk(false) } else { a.write() };
    symrt::env::fs::set_intruder(None);
    reader("after A's flush".to_string());
    if fired.get() { cover("interleaved"); } else { cover("not_interleaved"); }
    if let Some(w) = unloadable.borrow().as_ref() {
        note(format!("cache file fails to load {w}"));
    }
    check_bool("concurrent:cache_file_loads_at_every_moment", unloadable.borrow().is_none());
    check_bool("concurrent:first_writer_flush_succeeds", ra.is_ok());
    if let Some(ok) = *b_result.borrow() {
        check_bool("concurrent:second_writer_flush_succeeds", ok);
    }
    check_bool("concurrent:a_cache_file_exists_afterwards", symrt::env::fs::exists(path));
    // no other file is left behind next to the cache file
    let leftovers: Vec<_> = symrt::env::fs::list().into_iter().filter(|p| p.to_str() != Some(path)).collect();
    check_bool("concurrent:no_temporary_file_left_behind", leftovers.is_empty());
}

fn c18_corrupt() {
    let mut store = setup(2, 2);
    let contents: Vec<&[u8]> = vec![b"", b"\xff\xfe\x00garbage", b"{}", b"[1,2,3]", b"{\"peers\": 5, \"last_updated\": 1, \"network_version\": \"x\"}", b"{\"peers\": {\"not-a-peer-id\": []}, \"last_updated\": 1, \"network_version\": \"x\"}"];
    let c = contents[choice(contents.len())];
    symrt::env::fs::write("/cache/bootstrap_cache.json", c).unwrap();
    note(format!("file content: {:?}", String::from_utf8_lossy(c)));
    let r = BootstrapCacheStore::load_cache_data(store.config());
    cover("loaded_corrupt");
    check_bool("corrupt:file_is_rejected_with_an_error", r.is_err());
    store.add_addr(quic(1, 1));
    let before = all_pairs(&store.data);
    store.sync_and_flush_to_disk(choice(2) == 1).expect("flush over a corrupt file succeeds");
    let loaded = BootstrapCacheStore::load_cache_data(store.config());
    check_bool("corrupt:replaced_by_a_loadable_file", loaded.is_ok());
    if let Ok(d) = loaded {
        check_bool("corrupt:own_knowledge_survives", all_pairs(&d) == before);
    }
}

fn c18_load_bulk_file() {
    let max_peers = 1 + choice(2);
    let store = setup(max_peers, 2);
    let now = now_secs();
    // three peers, one reliable address each; the instants are unrelated to each other (ties included),
    // not in the future and not expired, so that only the peer limit can remove anything
    let mut data = CacheData::default();
    let mut seen: Vec<SymU<64>> = vec![];
    for i in 1..=3u8 {
        let t = SymU::<64>::fresh(&format!("peer{i}_last_seen_s"));
        symrt::assume(t.sle(now).0);
        symrt::assume(now.wrapping_sub(t).slt(expiry()).0);
        let mut a = BootstrapAddr::new(quic(i, 1));
        a.last_seen = crate::shim::SystemTime(t);
        a.success_count = 1;
        data.insert(pid(i), a);
        seen.push(t);
    }
    let text = serde_json::to_string(&data).expect("serialise");
    symrt::env::fs::write("/cache/bootstrap_cache.json", text.as_bytes()).unwrap();
    let r = BootstrapCacheStore::load_cache_data(store.config());
    cover("bulk_loaded");
    if seen[0].seq(seen[1]).and(seen[1].seq(seen[2])).get() {
        cover("all_three_last_seen_equal");
    }
    match r {
        Ok(d) => {
            note(format!("max_peers={max_peers} loaded={}", d.peers.len()));
            check_bool("bulk:at_most_max_peers_after_load", d.peers.len() <= max_peers);
            check_bool("bulk:limit_is_the_only_reason_to_drop", d.peers.len() >= max_peers.min(3));
            // the peers that were dropped were not seen more recently than any peer that was kept
            for i in 1..=3u8 {
                if d.peers.contains_key(&pid(i)) {
                    continue;
                }
                for k in 1..=3u8 {
                    if d.peers.contains_key(&pid(k)) {
                        check("bulk:dropped_peer_not_more_recent_than_a_kept_one", seen[i as usize - 1].sle(seen[k as usize - 1]).0);
                    }
                }
            }
        }
        Err(_) => {
            check_bool("bulk:well_formed_file_loads", false);
        }
    }
}

fn c18_untrusted_file() {
    let store = setup(2, 2);
    // a syntactically valid file written by somebody else: last_seen is any 64-bit value
    let t = SymU::<64>::fresh("file_last_seen_s");
    let mut data = CacheData::default();
    let mut a = BootstrapAddr::new(quic(1, 1));
    a.last_seen = crate::shim::SystemTime(t);
    a.success_count = [0u32, 1, u32::MAX][choice(3)];
    a.failure_count = [0u32, 1, u32::MAX][choice(3)];
    data.insert(pid(1), a);
    let text = serde_json::to_string(&data).expect("serialise");
    symrt::env::fs::write("/cache/bootstrap_cache.json", text.as_bytes()).unwrap();
    let r = BootstrapCacheStore::load_cache_data(store.config());
    cover("loaded");
    if let Ok(d) = r {
        let now = now_secs();
        for (peer, addrs) in d.peers.iter() {
            for x in addrs.0.iter() {
                check("untrusted:loaded_address_not_expired", now.wrapping_sub(x.last_seen.0).slt(expiry()).0);
                check("untrusted:loaded_address_not_from_the_future", x.last_seen.0.sle(now).0);
                check_bool("untrusted:loaded_address_reliable", x.failure_count <= x.success_count);
                check_well_formed(peer, &x.addr, "untrusted");
            }
        }
    }
}
