//! d_boot: transplanted ant-bootstrap/src/cache_store.rs (+ items of lib.rs, config.rs) under symrt.
#![allow(dead_code, unused_imports, unused_variables, unused_mut, clippy::all)]
// path-qualified uses (`tracing::warn!(..)`) in transplanted code resolve to no-op macros
extern crate noop_tracing as tracing;
macro_rules! trace { ($($t:tt)*) => { if false { let _ = format!($($t)*); } } }
macro_rules! debug { ($($t:tt)*) => { if false { let _ = format!($($t)*); } } }
macro_rules! info { ($($t:tt)*) => { if false { let _ = format!($($t)*); } } }
macro_rules! warn { ($($t:tt)*) => { if false { let _ = format!($($t)*); } } }
macro_rules! error { ($($t:tt)*) => { if false { let _ = format!($($t)*); } } }

pub mod shim;
include!("gen/lib_items.rs");
pub mod config {
    include!("gen/config_items.rs");
}
pub use config::BootstrapCacheConfig;
pub use shim::{get_network_version, Error, PeersArgs, Result};
#[path = "gen/cache_store.rs"]
pub mod cache_store;
mod runner;

fn main() {
    runner::main_dispatch(cache_store::harness::harnesses());
}
