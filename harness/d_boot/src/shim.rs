//! Shims for the bootstrap cache: symbolic wall clock / durations (seconds), in-memory file
//! system behind std::fs::OpenOptions and AtomicWriteFile, deterministic HashMap.
#![allow(dead_code)]
use std::cell::Cell;
use symrt::{assume, SymU};

#[derive(Debug, thiserror::Error)]
pub enum Error {
    #[error("Failed to parse cache data")]
    FailedToParseCacheData,
    #[error("Invalid bootstrap cache directory")]
    InvalidBootstrapCacheDir,
    #[error("IO error: {0}")]
    Io(#[from] ::std::io::Error),
    #[error("JSON error: {0}")]
    Json(#[from] serde_json::Error),
}
pub type Result<T> = ::std::result::Result<T, Error>;

pub fn get_network_version() -> String {
    "1_0.3".to_string()
}

#[derive(Default)]
pub struct PeersArgs {
    pub first: bool,
    pub local: bool,
    pub bootstrap_cache_dir: Option<::std::path::PathBuf>,
}
impl PeersArgs {
    pub fn get_bootstrap_cache_path(&self) -> Result<Option<::std::path::PathBuf>> {
        Ok(self.bootstrap_cache_dir.as_ref().map(|d| d.join("bootstrap_cache.json")))
    }
}

// ---------------- symbolic time ----------------
thread_local! {
    static NOW: Cell<Option<SymU<64>>> = Cell::new(None);
}
pub fn reset() {
    NOW.with(|n| n.set(None));
}
/// current wall clock (seconds); constant until the harness calls advance()
pub fn now_secs() -> SymU<64> {
    if let Some(n) = NOW.with(|n| n.get()) {
        return n;
    }
    advance()
}
/// a later (or equal) symbolic instant
pub fn advance() -> SymU<64> {
    let prev = NOW.with(|n| n.get());
    let t = SymU::<64>::fresh_auto("now_s");
    assume(t.slt(SymU::konst(1u64 << 40)).0);
    match prev {
        Some(p) => assume(p.sle(t).0),
        None => assume(SymU::konst(1u64 << 30).slt(t).0),
    }
    NOW.with(|n| n.set(Some(t)));
    t
}

#[derive(Clone, Copy, Debug, PartialEq, Eq, PartialOrd, Ord)]
pub struct SystemTime(pub SymU<64>);
#[derive(Debug)]
pub struct SystemTimeError;
impl SystemTime {
    pub fn now() -> Self {
        SystemTime(now_secs())
    }
    pub fn duration_since(&self, earlier: SystemTime) -> ::std::result::Result<Duration, SystemTimeError> {
        if self.0 < earlier.0 {
            Err(SystemTimeError)
        } else {
            Ok(Duration::sym(self.0.wrapping_sub(earlier.0)))
        }
    }
    pub fn elapsed(&self) -> ::std::result::Result<Duration, SystemTimeError> {
        SystemTime::now().duration_since(*self)
    }
}
impl ::std::ops::Add<Duration> for SystemTime {
    type Output = SystemTime;
    /// as std: panics on overflow
    fn add(self, d: Duration) -> SystemTime {
        let sum = self.0.wrapping_add(d.secs());
        if sum < self.0 {
            panic!("overflow when adding duration to instant");
        }
        SystemTime(sum)
    }
}
impl ::std::ops::Sub<Duration> for SystemTime {
    type Output = SystemTime;
    fn sub(self, d: Duration) -> SystemTime {
        if self.0 < d.secs() {
            panic!("overflow when subtracting duration from instant");
        }
        SystemTime(self.0.wrapping_sub(d.secs()))
    }
}
impl serde::Serialize for SystemTime {
    fn serialize<S: serde::Serializer>(&self, s: S) -> ::std::result::Result<S::Ok, S::Error> {
        s.serialize_u32(self.0 .0)
    }
}
impl<'de> serde::Deserialize<'de> for SystemTime {
    fn deserialize<D: serde::Deserializer<'de>>(d: D) -> ::std::result::Result<Self, D::Error> {
        let v = <u32 as serde::Deserialize>::deserialize(d)?;
        Ok(SystemTime(SymU(v)))
    }
}

/// seconds; either a compile-time constant (config consts) or a symbolic term
#[derive(Clone, Copy, Debug)]
pub struct Duration {
    konst: u64,
    term: u32,
}
impl Duration {
    pub const fn from_secs(s: u64) -> Self {
        Duration { konst: s, term: u32::MAX }
    }
    pub const fn from_millis(ms: u64) -> Self {
        Duration { konst: ms / 1000, term: u32::MAX }
    }
    pub const fn from_mins(m: u64) -> Self {
        Duration { konst: m * 60, term: u32::MAX }
    }
    pub const fn from_hours(h: u64) -> Self {
        Duration { konst: h * 3600, term: u32::MAX }
    }
    pub const fn from_days(d: u64) -> Self {
        Duration { konst: d * 86400, term: u32::MAX }
    }
    pub const ZERO: Duration = Duration { konst: 0, term: u32::MAX };
    pub const MAX: Duration = Duration { konst: u64::MAX, term: u32::MAX };
    pub fn is_zero(&self) -> bool {
        self.secs() == SymU::konst(0)
    }
    pub fn sym(t: SymU<64>) -> Self {
        Duration { konst: 0, term: t.0 }
    }
    pub fn secs(&self) -> SymU<64> {
        if self.term == u32::MAX {
            SymU::konst(self.konst)
        } else {
            SymU(self.term)
        }
    }
    pub fn as_secs(&self) -> u64 {
        self.konst
    }
}
impl PartialEq for Duration {
    fn eq(&self, o: &Self) -> bool {
        self.secs() == o.secs()
    }
}
impl Eq for Duration {}
impl PartialOrd for Duration {
    fn partial_cmp(&self, o: &Self) -> Option<::std::cmp::Ordering> {
        Some(self.cmp(o))
    }
    fn lt(&self, o: &Self) -> bool {
        self.secs() < o.secs()
    }
}
impl Ord for Duration {
    fn cmp(&self, o: &Self) -> ::std::cmp::Ordering {
        self.secs().cmp(&o.secs())
    }
}

// ---------------- module trees ----------------
pub mod std {
    pub use ::std::*;
    pub use symrt::det::collections;
    pub mod time {
        pub use super::super::{Duration, SystemTime};
    }
    pub mod fs {
        pub use symrt::env::fs::*;
    }
}
pub mod atomic_write_file {
    use ::std::io;
    use ::std::path::{Path, PathBuf};
    /// model of atomic-write-file: content becomes visible at the path only on commit, all at once
    pub struct AtomicWriteFile {
        path: PathBuf,
        buf: Vec<u8>,
    }
    pub struct Options;
    impl AtomicWriteFile {
        pub fn options() -> Options {
            Options
        }
        pub fn commit(self) -> io::Result<()> {
            symrt::env::fs::install(&self.path, &self.buf)
        }
    }
    impl Options {
        pub fn open<P: AsRef<Path>>(&self, p: P) -> io::Result<AtomicWriteFile> {
            Ok(AtomicWriteFile { path: p.as_ref().to_path_buf(), buf: vec![] })
        }
    }
    impl io::Write for AtomicWriteFile {
        fn write(&mut self, b: &[u8]) -> io::Result<usize> {
            self.buf.extend_from_slice(b);
            Ok(b.len())
        }
        fn flush(&mut self) -> io::Result<()> {
            Ok(())
        }
    }
}
