//! C14 harnesses over the transplanted data-map packing (self_encryption.rs) and fetching (client items).
use super::*;
use crate::runner::Harness;
use crate::shim::client::ClientNet;
use crate::shim::self_encryption::PIECE;
use crate::shim::{self};
use ::ant_protocol::storage::try_serialize_record;
use std::sync::Mutex;
use std::collections::HashMap;
use symrt::env::block_on;
use symrt::{assume, check, check_bool, choice, cover, note, SymU};

pub fn harnesses() -> Vec<Harness> {
    vec![
        Harness {
            name: "c15_data_read_faults",
            property: "C15",
            f: c15_data_read_faults,
            about: "data_get_public when one chunk of the data map (or of an upper data-map level) is missing or substituted by its holder: the read fails with an error, it never returns other or shortened data",
        },
        Harness {
        name: "c14_round_trip",
        property: "C14",
        f: c14_round_trip,
        about: "encrypt (pack_data_map over an ideal self-encryption, symbolic MAX_CHUNK_SIZE) then data_get_public from an in-memory record source with chunk fetches completing in a chosen order: bytes equal, every chunk within the maximum and content addressed, deterministic, too-small input rejected",
    },
    ]
}

/// A storage node cannot make a read return other content: with one chunk withheld or replaced by other (validly
/// encoded) chunk content under the same key, whichever position and whenever its fetch completes, the read is an error.
fn c15_data_read_faults() {
    shim::reset();
    symrt::register_path_reset(shim::reset);
    let t = shim::max_chunk_size();
    assume(SymU::<64>::konst(PIECE as u64).sle(t).0);
    let lens = [3 * PIECE, 4 * PIECE + 1, 10 * PIECE];
    let len = lens[choice(lens.len())];
    let data = data_of(len, 0);
    let Ok((root, chunks)) = crate::self_encryption::encrypt(data.clone()) else {
        check_bool("faults:setup_encrypts", false);
        return;
    };
    let mut store = HashMap::new();
    for c in chunks.iter().chain(std::iter::once(&root)) {
        let (k, r) = record_of(c);
        store.insert(k, r);
    }
    // the victim: the first, a middle or the last chunk of the list (content chunks and upper-level data-map chunks)
    let n = chunks.len();
    let victim = &chunks[[0, n / 2, n - 1][choice(3)]];
    let (vkey, _) = record_of(victim);
    let substituted = choice(2) == 1;
    if substituted {
        // other chunk content, validly encoded, served under the victim's key
        let other = Chunk::new(Bytes::from(vec![0x5au8; 40]));
        let (_, mut r) = record_of(&other);
        r.key = vkey.clone();
        store.insert(vkey.clone(), r);
    } else {
        store.remove(&vkey);
    }
    let batch = [1usize, 2, 64][choice(3)];
    shim::set_batch_size(batch);
    let n_req = 1 + n;
    let delays: Vec<usize> = match choice(3) {
        0 => vec![0; n_req],
        1 => (0..n_req).map(|i| (n_req - i) % 67).collect(),
        _ => (0..n_req).map(|i| (i * 7) % 5).collect(),
    };
    note(format!("len={len} chunks={n} victim={} batch={batch} delays={:?}", if substituted { "substituted" } else { "missing" }, &delays[..delays.len().min(6)]));
    let c = Client { network: ClientNet { store: Mutex::new(store), asked: Mutex::new(vec![]), delays: Mutex::new(delays) } };
    let got = block_on(c.data_get_public(*root.name()));
    cover("read_done");
    match got {
        Ok(b) => {
            if b == data {
                // only possible if the victim was not needed: every chunk of the list is needed
                check_bool("faults:read_cannot_succeed_without_the_withheld_chunk", false);
            } else {
                check_bool("faults:read_returns_an_error_never_other_or_shortened_data", false);
            }
        }
        Err(_) => {
            cover("read_failed");
            check_bool("faults:read_fails", true);
        }
    }
}

/// content classes: 0 = pseudo-random bytes (all chunks differ), 1 = all zeros, 2 = periodic with the period of a piece
/// (1 and 2: several chunks of one data map can be byte-identical and share one address), 3 = piece-aligned blocks X Y X
fn data_of(len: usize, class: usize) -> Bytes {
    let mut x: u32 = 0x9e37_79b9;
    let mut next = || { x ^= x << 13; x ^= x >> 17; x ^= x << 5; (x >> 8) as u8 };
    match class {
        0 => Bytes::from((0..len).map(|_| next()).collect::<Vec<u8>>()),
        1 => Bytes::from(vec![0u8; len]),
        2 => {
            let period: Vec<u8> = (0..PIECE).map(|_| next()).collect();
            Bytes::from((0..len).map(|i| period[i % PIECE]).collect::<Vec<u8>>())
        }
        _ => {
            // blocks aligned with the pieces the source is cut into, in the pattern X Y X X Y X ...: equal pieces
            // with different neighbours (their chunks differ although their source hashes are equal)
            let mut v = Vec::with_capacity(len);
            for (i, size) in crate::shim::self_encryption::piece_sizes(len).into_iter().enumerate() {
                v.extend(std::iter::repeat(if i % 3 == 1 { 0xb1u8 } else { 0xa7u8 }).take(size));
            }
            v.truncate(len);
            Bytes::from(v)
        }
    }
}

fn record_of(c: &Chunk) -> (RecordKey, Record) {
    let key = NetworkAddress::from_chunk_address(*c.address()).to_record_key();
    let value = try_serialize_record(c, RecordKind::Chunk).expect("chunk record").to_vec();
    (key.clone(), Record { key, value, publisher: None, expires: None })
}

fn c14_round_trip() {
    shim::reset();
    symrt::register_path_reset(shim::reset);
    // what the repository's code reads as *MAX_CHUNK_SIZE: any value from the model's piece size upwards
    // (in the real crate both are the same constant; chunks of the ideal self-encryption are <= PIECE)
    let t = shim::max_chunk_size();
    assume(SymU::<64>::konst(PIECE as u64).sle(t).0);
    let lens = [0usize, 1, 2, 3, 4, 3 * PIECE - 1, 3 * PIECE, 3 * PIECE + 1, 4 * PIECE, 10 * PIECE, 12 * PIECE + 5, 60 * PIECE + 7, 7 * PIECE + 3, 200 * PIECE + 1];
    // quick tier: the first 12 lengths (up to two additional levels); thorough: all (three additional levels)
    let n_lens = std::env::var("C14_LENS").ok().and_then(|s| s.parse().ok()).unwrap_or(12);
    let len = lens[choice(n_lens.min(lens.len()))];
    let class = choice(4);
    let data = data_of(len, class);
    let res = crate::self_encryption::encrypt(data.clone());
    if len < crate::shim::self_encryption::MIN_ENCRYPTABLE_BYTES {
        cover("too_small");
        check_bool("small:input_too_small_is_rejected_with_an_error", res.is_err());
        return;
    }
    let (root, chunks) = match res {
        Ok(x) => x,
        Err(_) => {
            check_bool("encrypt:encryptable_input_is_encrypted", false);
            return;
        }
    };
    let levels = shim::encrypt_calls() - 1;
    cover(["random_content", "zero_content", "periodic_content", "repeated_blocks_content"][class]);
    note(format!("len={len} content={} additional_levels={levels} data_map_chunk={}B chunks={}", ["random", "zeros", "periodic", "blocks X Y X"][class], root.serialised_size(), chunks.len()));
    cover(["zero_levels", "one_level", "two_levels", "more_levels"][levels.min(3)]);
    // every produced chunk is within the maximum and addressed by the hash of its content
    check("chunks:data_map_chunk_within_maximum", SymU::<64>::konst(root.serialised_size().0 as u64).sle(t).0);
    check_bool("chunks:data_map_chunk_content_addressed", *root.name() == XorName::from_content(root.value()));
    for c in &chunks {
        check("chunks:chunk_within_maximum", SymU::<64>::konst(c.serialised_size().0 as u64).sle(t).0);
        check_bool("chunks:chunk_content_addressed", *c.name() == XorName::from_content(c.value()));
    }
    // the same input yields the same data map and chunk addresses
    match crate::self_encryption::encrypt(data.clone()) {
        Ok((root2, chunks2)) => {
            let mut a: Vec<XorName> = chunks.iter().map(|c| *c.name()).collect();
            let mut b: Vec<XorName> = chunks2.iter().map(|c| *c.name()).collect();
            a.sort();
            b.sort();
            check_bool("deterministic:same_data_map_address", root.name() == root2.name());
            check_bool("deterministic:same_chunk_addresses", a == b);
        }
        Err(_) => {
            check_bool("deterministic:second_encryption_succeeds", false);
        }
    }
    // the network holds exactly the produced chunks; fetches complete in an order the harness chooses
    let mut store = HashMap::new();
    for c in chunks.iter().chain(std::iter::once(&root)) {
        let (k, r) = record_of(c);
        store.insert(k, r);
    }
    let batch = [1usize, 2, 64][choice(3)];
    shim::set_batch_size(batch);
    let n_req = 1 + chunks.len();
    let delays: Vec<usize> = if chunks.len() == 3 {
        // request 0 is the data map chunk; the three chunk fetches complete in every order
        let perms = [[0usize, 1, 2], [0, 2, 1], [1, 0, 2], [1, 2, 0], [2, 0, 1], [2, 1, 0]];
        let p = perms[choice(6)];
        vec![0, p[0], p[1], p[2]]
    } else {
        match choice(4) {
            0 => vec![0; n_req],
            1 => (0..n_req).map(|i| (n_req - i) % 67).collect(), // later requests complete first
            2 => (0..n_req).map(|i| (i * 7) % 5).collect(),
            _ => (0..n_req).map(|i| (i % 2) * 3).collect(),
        }
    };
    note(format!("batch={batch} delays={:?}", &delays[..delays.len().min(8)]));
    let c = Client { network: ClientNet { store: Mutex::new(store), asked: Mutex::new(vec![]), delays: Mutex::new(delays) } };
    let got = block_on(c.data_get_public(*root.name()));
    match got {
        Ok(b) => {
            cover("fetched");
            if levels == 0 {
                check_bool("round_trip:fetched_bytes_equal_input", b == data);
            } else {
                check_bool("round_trip:fetched_bytes_equal_input[data_map_split_over_levels]", b == data);
            }
        }
        Err(e) => {
            note(format!("fetch failed: {e:?}").chars().take(160).collect::<String>());
            if levels == 0 {
                check_bool("round_trip:fetch_of_stored_data_succeeds", false);
            } else {
                check_bool("round_trip:fetch_of_stored_data_succeeds[data_map_split_over_levels]", false);
            }
        }
    }
}
