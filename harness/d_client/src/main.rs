//! d_client: transplanted autonomi/src/self_encryption.rs (whole file) and the data read items of
//! autonomi/src/client/{utils.rs, data/mod.rs, data/public.rs}, executed under symrt over an ideal
//! self-encryption whose MAX_CHUNK_SIZE is symbolic (C14, reduced claim: the repository's own level logic).
#![allow(dead_code, unused_imports, unused_variables, unused_mut, clippy::all)]


// as autonomi's lib.rs: `#[macro_use] extern crate tracing;` (here: no-op macros), so that both `use tracing::debug;`
// and unqualified `error!` in the transplanted files resolve
#[macro_use]
extern crate noop_tracing as tracing;

pub mod shim;
#[path = "gen/chunks.rs"]
pub mod chunks;
#[path = "gen/self_encryption.rs"]
pub mod self_encryption;
#[path = "gen/data_items.rs"]
pub mod data_items;
mod runner;

fn main() {
    runner::main_dispatch(data_items::harness::harnesses());
}
