//! minimal registry / CLI shared shape with d_net
pub struct Harness {
    pub name: &'static str,
    pub property: &'static str,
    pub f: fn(),
    pub about: &'static str,
}

pub fn main_dispatch(reg: Vec<Harness>) {
    let args: Vec<String> = std::env::args().collect();
    let mut names: Vec<String> = vec![];
    let mut cfg = symrt::Config::default();
    cfg.threads = 1;
    let mut out: Option<String> = None;
    let mut replay: Option<(String, usize)> = None;
    let mut i = 1;
    while i < args.len() {
        match args[i].as_str() {
            "--list" => {
                for h in &reg {
                    println!("{}\t{}\t{}", h.name, h.property, h.about);
                }
                return;
            }
            "--threads" => { cfg.threads = args[i + 1].parse().unwrap(); i += 1; }
            "--max-paths" => { cfg.max_paths = args[i + 1].parse().unwrap(); i += 1; }
            "--split-depth" => { cfg.split_depth = args[i + 1].parse().unwrap(); i += 1; }
            "--seed" => { cfg.seed = args[i + 1].parse().unwrap(); i += 1; }
            "--time" => { cfg.time_budget_s = args[i + 1].parse().unwrap(); i += 1; }
            "--crosscheck-every" => { cfg.crosscheck_every = args[i + 1].parse().unwrap(); i += 1; }
            "--out" => { out = Some(args[i + 1].clone()); i += 1; }
            "--replay" => { replay = Some((args[i + 1].clone(), args[i + 2].parse().unwrap())); i += 2; }
            n => names.push(n.to_string()),
        }
        i += 1;
    }
    symrt::det::set_seed(cfg.seed);
    if let Some((file, idx)) = replay {
        let text = std::fs::read_to_string(&file).expect("read replay file");
        let j: serde_json::Value = serde_json::from_str(&text).unwrap();
        let hname = j["harness"].as_str().unwrap().to_string();
        let h = reg.iter().find(|h| h.name == hname).expect("unknown harness");
        let vj = &j["violations"][idx];
        let mut v = symrt::Violation::default();
        v.check = vj["check"].as_str().unwrap().to_string();
        for (k, val) in vj["model"].as_object().unwrap() {
            v.model.insert(k.clone(), val.as_str().unwrap().to_string());
        }
        for t in vj["trail"].as_array().unwrap() {
            v.trail.push((t[0].as_u64().unwrap() as u32, t[1].as_bool().unwrap()));
        }
        let f = h.f;
        let again = symrt::replay_concrete(&move || f(), &v);
        let hit = again.iter().any(|a| a.check == v.check);
        println!("{}", serde_json::json!({"harness": hname, "check": v.check, "reproduced": hit,
            "seen": again.iter().map(|a| a.check.clone()).collect::<Vec<_>>() }));
        std::process::exit(if hit { 1 } else { 2 });
    }
    let mut reports = vec![];
    for n in &names {
        let h = reg.iter().find(|h| h.name == *n).unwrap_or_else(|| panic!("unknown harness {}", n));
        let f = h.f;
        let mut rep = symrt::run(h.name, &move || f(), &cfg);
        rep.harness = h.name.to_string();
        let mut j = rep.to_json();
        j["property"] = serde_json::json!(h.property);
        j["about"] = serde_json::json!(h.about);
        reports.push(j);
    }
    let text = serde_json::to_string_pretty(&serde_json::json!(reports)).unwrap();
    match out {
        Some(p) => std::fs::write(p, text).unwrap(),
        None => println!("{}", text),
    }
}
