//! Environment of the transplanted autonomi data code (C14).
//!
//! Real: ant-protocol (Chunk, its Serialize impl, record header/codec, NetworkAddress), rmp-serde, bytes, futures
//! (FuturesUnordered), libp2p Record/RecordKey, xor_name (SHA-3 content addresses).
//! Model: the external `self_encryption` crate (ideal, invertible chunking with a concrete piece size and a
//! *symbolic* MAX_CHUNK_SIZE as seen by the repository's code), rayon (sequential), the client's network handle
//! (an in-memory record source whose replies complete in an order the harness chooses).
use std::cell::{Cell, RefCell};
use std::collections::HashMap;
use symrt::SymU;

pub mod ant_protocol {
    pub use ::ant_protocol::*;
    pub mod storage {
        pub use crate::chunks::Chunk;
        pub use ::ant_protocol::storage::*;
    }
}

/// size of a chunk as the transplanted code sees it: native, except that a comparison with the MAX_CHUNK_SIZE
/// placeholder is a comparison with the symbolic maximum, decided by the solver
#[derive(Clone, Copy, Debug, PartialEq, Eq, PartialOrd, Ord)]
pub struct Sz(pub usize);
impl Sz {
    fn sym(self) -> SymU<64> {
        SymU::<64>::konst(self.0 as u64)
    }
}
fn is_max(o: &usize) -> bool {
    *o == self_encryption::MAX_PLACEHOLDER
}
impl std::fmt::Display for Sz {
    fn fmt(&self, f: &mut std::fmt::Formatter<'_>) -> std::fmt::Result {
        write!(f, "{}", self.0)
    }
}
impl PartialEq<usize> for Sz {
    fn eq(&self, o: &usize) -> bool {
        if is_max(o) { self.sym() == max_chunk_size() } else { self.0 == *o }
    }
}
impl PartialOrd<usize> for Sz {
    fn partial_cmp(&self, o: &usize) -> Option<std::cmp::Ordering> {
        if is_max(o) { Some(self.sym().cmp(&max_chunk_size())) } else { self.0.partial_cmp(o) }
    }
    fn lt(&self, o: &usize) -> bool {
        if is_max(o) { self.sym() < max_chunk_size() } else { self.0 < *o }
    }
    fn le(&self, o: &usize) -> bool {
        if is_max(o) { self.sym() <= max_chunk_size() } else { self.0 <= *o }
    }
    fn gt(&self, o: &usize) -> bool {
        if is_max(o) { self.sym() > max_chunk_size() } else { self.0 > *o }
    }
    fn ge(&self, o: &usize) -> bool {
        if is_max(o) { self.sym() >= max_chunk_size() } else { self.0 >= *o }
    }
}
impl PartialEq<Sz> for usize {
    fn eq(&self, o: &Sz) -> bool {
        o == self
    }
}
impl PartialOrd<Sz> for usize {
    fn partial_cmp(&self, o: &Sz) -> Option<std::cmp::Ordering> {
        o.partial_cmp(self).map(|c| c.reverse())
    }
    fn lt(&self, o: &Sz) -> bool {
        o > self
    }
    fn le(&self, o: &Sz) -> bool {
        o >= self
    }
    fn gt(&self, o: &Sz) -> bool {
        o < self
    }
    fn ge(&self, o: &Sz) -> bool {
        o <= self
    }
}

pub mod ant_networking {
    pub use ::ant_networking::{GetRecordCfg, GetRecordError, NetworkError};
}

pub mod rayon {
    pub mod prelude {
        /// sequential stand-in: the closure given to `map` is pure
        pub trait IntoParallelIterator {
            type Iter: Iterator;
            fn into_par_iter(self) -> Self::Iter;
        }
        impl<T> IntoParallelIterator for Vec<T> {
            type Iter = std::vec::IntoIter<T>;
            fn into_par_iter(self) -> Self::Iter {
                self.into_iter()
            }
        }
        pub trait IntoParallelRefIterator<'a> {
            type Iter: Iterator;
            fn par_iter(&'a self) -> Self::Iter;
        }
        impl<'a, T: 'a> IntoParallelRefIterator<'a> for Vec<T> {
            type Iter = std::slice::Iter<'a, T>;
            fn par_iter(&'a self) -> Self::Iter {
                self.iter()
            }
        }
        impl<'a, T: 'a> IntoParallelRefIterator<'a> for [T] {
            type Iter = std::slice::Iter<'a, T>;
            fn par_iter(&'a self) -> Self::Iter {
                self.iter()
            }
        }
    }
}

thread_local! {
    static MAX: Cell<Option<SymU<64>>> = Cell::new(None);
    static BATCH: Cell<usize> = Cell::new(64);
    pub static ENCRYPT_CALLS: Cell<usize> = Cell::new(0);
}

pub fn reset() {
    MAX.with(|m| m.set(None));
    BATCH.with(|b| b.set(64));
    ENCRYPT_CALLS.with(|c| c.set(0));
}
pub fn encrypt_calls() -> usize {
    ENCRYPT_CALLS.with(|c| c.get())
}
pub fn set_batch_size(n: usize) {
    BATCH.with(|b| b.set(n));
}
/// the symbolic MAX_CHUNK_SIZE of this path
pub fn max_chunk_size() -> SymU<64> {
    MAX.with(|m| match m.get() {
        Some(v) => v,
        None => {
            let v = SymU::<64>::fresh("max_chunk_size");
            m.set(Some(v));
            v
        }
    })
}

pub mod self_encryption {
    //! Ideal self-encryption: data of at least MIN_ENCRYPTABLE_BYTES bytes is cut into max(3, ceil(len / PIECE))
    //! pieces; the "encrypted" chunk of a piece is an invertible image of the same length; the data map lists, per
    //! piece, index, hash of the chunk, hash of the piece and its length. decrypt_full_set returns the concatenation
    //! of the decrypted chunks it is handed, by index (as lenient as the real crate). PIECE is concrete; what the repository's code sees as
    //! `*MAX_CHUNK_SIZE` is a symbolic value that the harness assumes to be at least PIECE.
    use super::*;
    use bytes::Bytes;
    use serde::{Deserialize, Serialize};
    use xor_name::XorName;

    pub const PIECE: usize = 512;
    pub const MIN_ENCRYPTABLE_BYTES: usize = 3;

    #[derive(Debug, thiserror::Error)]
    pub enum Error {
        #[error("{0}")]
        Generic(String),
    }
    pub type Result<T> = std::result::Result<T, Error>;

    #[derive(Serialize, Deserialize, Clone, Debug, PartialEq, Eq)]
    pub struct ChunkInfo {
        pub index: usize,
        pub dst_hash: XorName,
        pub src_hash: XorName,
        pub src_size: usize,
    }
    #[derive(Serialize, Deserialize, Clone, Debug, PartialEq, Eq)]
    pub struct DataMap(Vec<ChunkInfo>);
    impl DataMap {
        pub fn infos(&self) -> Vec<ChunkInfo> {
            self.0.to_vec()
        }
        pub fn file_size(&self) -> usize {
            self.0.iter().map(|i| i.src_size).sum()
        }
    }
    #[derive(Clone, Debug)]
    pub struct EncryptedChunk {
        pub index: usize,
        pub content: Bytes,
    }

    /// `*MAX_CHUNK_SIZE` in the transplanted code is a native usize *placeholder* (so that it can be printed, passed as
    /// a capacity hint, handed through usize parameters); sizes of chunks are `shim::Sz`, whose comparisons recognise
    /// the placeholder and compare with the symbolic maximum of this path through the solver instead.
    /// Arithmetic on the placeholder is not modelled (no use of it exists in the transplanted code).
    pub const MAX_PLACEHOLDER: usize = 1_048_577;
    pub struct MaxChunkSize;
    #[allow(non_upper_case_globals)]
    pub static MAX_CHUNK_SIZE: MaxChunkSize = MaxChunkSize;
    impl std::ops::Deref for MaxChunkSize {
        type Target = usize;
        fn deref(&self) -> &usize {
            &MAX_PLACEHOLDER
        }
    }

    /// As in the real crate, the key material of chunk i is derived from the hashes of source pieces i, i-1 and i-2
    /// (cyclically): equal pieces with different neighbours give different chunks at different addresses.
    fn pad_of(src: &[XorName], i: usize) -> [u8; 32] {
        let n = src.len();
        let mut m = Vec::with_capacity(96);
        m.extend_from_slice(&src[i].0);
        m.extend_from_slice(&src[(i + n - 1) % n].0);
        m.extend_from_slice(&src[(i + n - 2) % n].0);
        XorName::from_content(&m).0
    }
    fn image(piece: &[u8], pad: &[u8; 32]) -> Vec<u8> {
        piece.iter().zip(pad.iter().cycle()).map(|(b, p)| b ^ p ^ 0x5a).collect()
    }

    /// sizes of the pieces a source of `len` bytes is cut into
    pub fn piece_sizes(len: usize) -> Vec<usize> {
        let n = std::cmp::max(3, (len + PIECE - 1) / PIECE);
        let (base, rem) = (len / n, len % n);
        (0..n).map(|index| base + usize::from(index < rem)).collect()
    }

    pub fn encrypt(bytes: Bytes) -> Result<(DataMap, Vec<EncryptedChunk>)> {
        if MIN_ENCRYPTABLE_BYTES > bytes.len() {
            return Err(Error::Generic(format!("Too small for self-encryption! Required size at least {MIN_ENCRYPTABLE_BYTES}")));
        }
        let len = bytes.len();
        let n = std::cmp::max(3, (len + PIECE - 1) / PIECE);
        let (base, rem) = (len / n, len % n);
        let mut infos = vec![];
        let mut chunks = vec![];
        let mut at = 0;
        ENCRYPT_CALLS.with(|c| c.set(c.get() + 1));
        let mut pieces: Vec<&[u8]> = vec![];
        for index in 0..n {
            // the remainder is spread over the first pieces, so that every piece stays within PIECE
            let size = base + usize::from(index < rem);
            pieces.push(&bytes[at..at + size]);
            at += size;
        }
        let src: Vec<XorName> = pieces.iter().map(|p| XorName::from_content(p)).collect();
        for (index, piece) in pieces.iter().enumerate() {
            let content = image(piece, &pad_of(&src, index));
            assert!(content.len() <= PIECE, "ideal self-encryption: piece within the model's chunk size");
            infos.push(ChunkInfo { index, dst_hash: XorName::from_content(&content), src_hash: src[index], src_size: piece.len() });
            chunks.push(EncryptedChunk { index, content: Bytes::from(content) });
        }
        Ok((DataMap(infos), chunks))
    }

    /// As lenient as the real crate: it decrypts the chunks it is handed, ordered by their index, and does not
    /// compare their number or their hashes with the data map (missing chunks give shorter data, silently) --
    /// handing over the full, right set is the caller's obligation.
    pub fn decrypt_full_set(data_map: &DataMap, chunks: &[EncryptedChunk]) -> Result<Bytes> {
        let mut sorted: Vec<&EncryptedChunk> = chunks.iter().collect();
        sorted.sort_by_key(|c| c.index);
        let src: Vec<XorName> = data_map.0.iter().map(|i| i.src_hash).collect();
        let mut out = Vec::with_capacity(data_map.file_size());
        for c in sorted {
            if c.index >= data_map.0.len() {
                return Err(Error::Generic(format!("chunk index {} outside the data map", c.index)));
            }
            out.extend_from_slice(&image(&c.content, &pad_of(&src, c.index)));
        }
        Ok(Bytes::from(out))
    }
}

pub mod client {
    use super::*;
    use libp2p::kad::{Record, RecordKey};
    use std::future::Future;
    use std::pin::Pin;
    use std::task::{Context, Poll};

    pub type ChunkAddr = xor_name::XorName;
    pub type DataAddr = xor_name::XorName;

    pub struct BatchSize;
    pub static CHUNK_DOWNLOAD_BATCH_SIZE: BatchSize = BatchSize;
    impl std::ops::Deref for BatchSize {
        type Target = usize;
        fn deref(&self) -> &usize {
            Box::leak(Box::new(super::BATCH.with(|b| b.get())))
        }
    }

    /// a reply that becomes available after `left` further polls
    pub struct Delay {
        left: usize,
    }
    impl Future for Delay {
        type Output = ();
        fn poll(mut self: Pin<&mut Self>, cx: &mut Context<'_>) -> Poll<()> {
            if self.left == 0 {
                Poll::Ready(())
            } else {
                self.left -= 1;
                cx.waker().wake_by_ref();
                Poll::Pending
            }
        }
    }

    /// the client's view of the network: an in-memory record source; the i-th request of a read is answered after
    /// `delays[i]` polls, which fixes the completion order of concurrent chunk fetches
    pub struct ClientNet {
        pub store: std::sync::Mutex<HashMap<RecordKey, Record>>,
        pub asked: std::sync::Mutex<Vec<RecordKey>>,
        pub delays: std::sync::Mutex<Vec<usize>>,
    }
    impl ClientNet {
        pub async fn get_record_from_network(&self, key: RecordKey, _cfg: &::ant_networking::GetRecordCfg) -> Result<Record, ::ant_networking::NetworkError> {
            let i = {
                let mut a = self.asked.lock().unwrap();
                a.push(key.clone());
                a.len() - 1
            };
            let left = self.delays.lock().unwrap().get(i).copied().unwrap_or(0);
            Delay { left }.await;
            let found = self.store.lock().unwrap().get(&key).cloned();
            match found {
                Some(r) => Ok(r),
                None => Err(::ant_networking::NetworkError::GetRecordError(::ant_networking::GetRecordError::RecordNotFound)),
            }
        }
    }
    pub struct Client {
        pub network: ClientNet,
    }
}
