//! C16 (b): the printed text is the amount's true value with exactly 18 fractional digits.
use super::*;
use crate::runner::Harness;
use crate::shim::{self, FmtRequest};
use symrt::{check, check_bool, cover, note, SymBool, SymU};

pub fn harnesses() -> Vec<Harness> {
    vec![Harness { name: "c16_from_str_arith", property: "C16", f: c16_from_str_arith, about: "from_str on digit templates whose numeric values are symbolic (up to 78 integer digits, 1..18 fraction digits): Ok(v) only with the exact value, never a wrapped one" },
    Harness { name: "c16_display", property: "C16", f: c16_display, about: "Display of an arbitrary 256-bit amount: literal pieces and formatting requests recorded from the real write!; value and digit count decided for all amounts" }]
}

fn ten18() -> SymU<256> {
    SymU::konst(1_000_000_000_000_000_000)
}

fn c16_display() {
    symrt::register_path_reset(shim::reset);
    shim::reset();
    let a = SymU::<256>::fresh("amount");
    let text = format!("{}", AttoTokens::from_atto(Amount(a)));
    let reqs: Vec<FmtRequest> = shim::REQUESTS.with(|r| r.borrow().clone());
    // split the produced text into literal pieces and holes
    let mut pieces: Vec<String> = vec![String::new()];
    let mut holes: Vec<usize> = vec![];
    let mut chars = text.chars().peekable();
    while let Some(c) = chars.next() {
        if c == '\u{1}' {
            let mut n = String::new();
            for d in chars.by_ref() {
                if d == '\u{2}' {
                    break;
                }
                n.push(d);
            }
            holes.push(n.parse().unwrap());
            pieces.push(String::new());
        } else {
            pieces.last_mut().unwrap().push(c);
        }
    }
    note(format!("literal pieces {:?}, {} holes", pieces, holes.len()));
    cover("formatted");
    if holes.is_empty() {
        // the implementation narrowed the amount to native integers and printed those: the text is concrete on
        // this path, so it is judged by its meaning (under the path condition that fixed the native value)
        cover("formatted_from_native_integers");
        let t = &pieces[0];
        let parts: Vec<&str> = t.split('.').collect();
        let well_formed = parts.len() == 2 && !parts[0].is_empty() && parts[0].bytes().all(|b| b.is_ascii_digit()) && parts[1].len() == 18 && parts[1].bytes().all(|b| b.is_ascii_digit())
            && (parts[0] == "0" || !parts[0].starts_with('0'));
        check_bool("display:text_is_integer_dot_18_digit_fraction", well_formed);
        if well_formed {
            use std::str::FromStr;
            let u = ruint::aliases::U256::from_str(parts[0]);
            let f = ruint::aliases::U256::from_str(parts[1]).unwrap();
            let ten18c = ruint::aliases::U256::from(10u8).pow(ruint::aliases::U256::from(18u8));
            match u.ok().and_then(|u| u.checked_mul(ten18c)).and_then(|x| x.checked_add(f)) {
                Some(v) => {
                    check("display:value_is_exact", SymU::<256>::konst_u256(v).seq(a).0);
                }
                None => {
                    check_bool("display:value_is_exact", false);
                }
            }
        }
        return;
    }
    // shape: <integer> "." <fraction>
    check_bool("display:shape_is_integer_dot_fraction", holes.len() == 2 && pieces == vec!["".to_string(), ".".to_string(), "".to_string()]);
    if holes.len() != 2 {
        return;
    }
    let unit = &reqs[holes[0]];
    let frac = &reqs[holes[1]];
    // integer part printed without padding (a padded integer part would not be a plain decimal)
    check_bool("display:integer_part_unpadded", unit.width.is_none() || unit.width == Some(0) || unit.width == Some(1));
    // fraction printed zero-padded to exactly 18 digits
    check_bool("display:fraction_width_is_18", frac.width == Some(18));
    check_bool("display:fraction_is_zero_padded", frac.zero_pad || frac.fill == '0');
    // the fraction fits 18 digits and unit.fraction is the true value: unit*10^18 + fraction = amount
    check("display:fraction_below_10_pow_18", frac.term.slt(ten18()).0);
    let recomposed = unit.term.wrapping_mul(ten18()).wrapping_add(frac.term);
    check("display:value_is_exact", recomposed.seq(a).0);
    check("display:no_overflow_in_recomposition", unit.term.sle(SymU::max_value().udiv(ten18())).0);
}

fn c16_from_str_arith() {
    use std::str::FromStr;
    symrt::register_path_reset(shim::reset);
    shim::reset();
    shim::set_symbolic_parse(true);
    // template: <n_units digits> [ "." <n_frac digits> ]; digits are placeholders ('7'), the last fraction digit is non-zero
    let n_units = [1usize, 20, 60, 78][symrt::choice(4)];
    // 256 and 274 fraction digits: lengths at which a digit count narrowed to 8 bits reads as 0 and 18 again
    let n_frac = [0usize, 1, 9, 18, 19, 256, 274][symrt::choice(7)];
    let mut text = "7".repeat(n_units);
    if n_frac > 0 {
        text.push('.');
        text.push_str(&"7".repeat(n_frac));
    }
    note(format!("template: {n_units} integer digits, {n_frac} fraction digits"));
    let r = AttoTokens::from_str(&text);
    let parsed: Vec<(String, SymU<256>)> = shim::PARSED.with(|p| p.borrow().clone());
    if parsed.is_empty() {
        // rejected before any digit was looked at: only legitimate if the shape itself is unacceptable
        cover("rejected");
        check_bool("from_str:well_formed_decimal_not_rejected_unparsed", r.is_err() && n_frac > 18);
        return;
    }
    let units = parsed[0].1;
    let max_units = SymU::<256>::max_value().udiv(ten18());
    match r {
        Ok(v) => {
            cover("accepted");
            check_bool("from_str:at_most_18_fraction_digits_accepted", n_frac <= 18);
            if n_frac > 18 {
                return;
            }
            let got = v.as_atto().0;
            // units * 10^18 must not wrap
            check("from_str:accepted_units_fit", units.sle(max_units).0);
            let scaled_units = units.wrapping_mul(ten18());
            let scaled_frac = if n_frac == 0 {
                SymU::<256>::konst(0)
            } else {
                let p = ruint::aliases::U256::from(10u8).pow(ruint::aliases::U256::from((18 - n_frac) as u64));
                parsed[1].1.wrapping_mul(SymU::konst_u256(p))
            };
            // exact sum: no wrap in the final addition
            check("from_str:value_is_exact_sum", got.seq(scaled_units.wrapping_add(scaled_frac)).0);
            check("from_str:sum_did_not_wrap", scaled_units.sle(got).0);
        }
        Err(e) => {
            cover("rejected");
            // rejected only for a reason: too many fraction digits, or the amount is not representable
            if n_frac <= 18 {
                let scaled_frac_max = SymU::<256>::konst(999_999_999_999_999_999);
                // representable for sure when units*10^18 + (10^18 - 1) fits
                let surely_fits = units.slt(max_units);
                check("from_str:representable_amount_not_rejected", surely_fits.not().0);
                let _ = scaled_frac_max;
            }
            let _ = e;
        }
    }
}
