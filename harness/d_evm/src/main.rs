//! d_evm: transplanted ant-evm/src/amount.rs over a symbolic 256-bit `Amount`.
#![allow(dead_code, unused_imports, unused_variables)]
pub mod shim;
pub use shim::{EvmError, Result};
#[path = "gen/amount.rs"]
pub mod amount;
mod runner;

fn main() {
    runner::main_dispatch(amount::harness::harnesses());
}
