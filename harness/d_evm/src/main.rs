//! d_evm: transplanted ant-evm/src/amount.rs over a symbolic 256-bit `Amount`.
#![allow(dead_code, unused_imports, unused_variables)]
// path-qualified uses (`tracing::warn!(..)`) in transplanted code resolve to no-op macros
extern crate noop_tracing as tracing;
pub mod shim;
pub use shim::{EvmError, Result};
#[path = "gen/amount.rs"]
pub mod amount;
mod runner;

fn main() {
    runner::main_dispatch(amount::harness::harnesses());
}
