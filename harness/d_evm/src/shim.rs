//! `Amount` (ruint's Uint<256,4>) replaced by a symbolic 256-bit value.
//! Div/Rem are modelled by the division lemma (fresh q, r with a = q*d + r, r < d, no overflow):
//! that is the trusted model of ruint's division.  Display records the formatting request the
//! real `write!` makes (term, width, zero flag, fill) and emits a hole token.
use std::cell::RefCell;
use symrt::{assume, SymBool, SymU};

#[derive(Debug, PartialEq, Eq, Clone)]
pub enum EvmError {
    FailedToParseAttoToken(String),
    ExcessiveValue,
    LossOfPrecision,
}
pub type Result<T, E = EvmError> = std::result::Result<T, E>;

#[derive(Clone, Copy, Debug, PartialEq, Eq, PartialOrd, Ord)]
pub struct Amount(pub SymU<256>);

#[derive(Clone, Debug)]
pub struct FmtRequest {
    pub term: SymU<256>,
    pub width: Option<usize>,
    pub zero_pad: bool,
    pub fill: char,
    pub alternate: bool,
    pub precision: Option<usize>,
}

thread_local! {
    pub static REQUESTS: RefCell<Vec<FmtRequest>> = RefCell::new(Vec::new());
    static DIVS: RefCell<Vec<(SymU<256>, SymU<256>, SymU<256>, SymU<256>)>> = RefCell::new(Vec::new());
}
pub fn reset() {
    REQUESTS.with(|r| r.borrow_mut().clear());
    DIVS.with(|r| r.borrow_mut().clear());
    PARSED.with(|r| r.borrow_mut().clear());
    set_symbolic_parse(false);
}

/// (q, r) for a / d under the division lemma; one pair per distinct (a, d)
fn divrem(a: SymU<256>, d: SymU<256>) -> (SymU<256>, SymU<256>) {
    if let Some((q, r)) = DIVS.with(|v| v.borrow().iter().find(|(aa, dd, _, _)| aa.0 == a.0 && dd.0 == d.0).map(|(_, _, q, r)| (*q, *r))) {
        return (q, r);
    }
    let q = SymU::<256>::fresh_auto("div_q");
    let r = SymU::<256>::fresh_auto("div_r");
    // r < d,  q*d does not overflow,  q*d + r does not overflow,  q*d + r = a
    assume(r.slt(d).0);
    let qd = q.wrapping_mul(d);
    assume(q.sle(SymU::max_value().udiv(d)).0);
    assume(qd.wrapping_add(r).seq(a).0);
    assume(qd.sle(a).0);
    DIVS.with(|v| v.borrow_mut().push((a, d, q, r)));
    (q, r)
}

impl Amount {
    pub const ZERO: Amount = Amount(SymU(u32::MAX)); // placeholder id, replaced by zero() at use sites
    pub fn zero() -> Self {
        Amount(SymU::konst(0))
    }
    pub const MAX: Amount = Amount(SymU(u32::MAX - 1)); // placeholder id, replaced by 2^256-1 at use sites
    fn norm(self) -> SymU<256> {
        if self.0 .0 == u32::MAX {
            SymU::konst(0)
        } else if self.0 .0 == u32::MAX - 1 {
            SymU::max_value()
        } else {
            self.0
        }
    }
    pub fn is_zero(&self) -> bool {
        self.norm() == SymU::konst(0)
    }
    pub fn checked_add(self, o: Amount) -> Option<Amount> {
        let s = self.norm().wrapping_add(o.norm());
        if s.slt(self.norm()).get() {
            None
        } else {
            Some(Amount(s))
        }
    }
    pub fn checked_sub(self, o: Amount) -> Option<Amount> {
        if self.norm().slt(o.norm()).get() {
            None
        } else {
            Some(Amount(self.norm().wrapping_sub(o.norm())))
        }
    }
    pub fn checked_mul(self, o: Amount) -> Option<Amount> {
        // exact for constants; symbolic operands: overflow iff a > MAX / b
        let (a, b) = (self.norm(), o.norm());
        if b.seq(SymU::konst(0)).get() {
            return Some(Amount(SymU::konst(0)));
        }
        if SymU::max_value().udiv(b).slt(a).get() {
            None
        } else {
            Some(Amount(a.wrapping_mul(b)))
        }
    }
    pub fn pow(self, e: Amount) -> Amount {
        let n: u64 = e.norm().as_const().expect("concrete exponent").try_into().unwrap();
        let mut r = SymU::<256>::konst(1);
        for _ in 0..n {
            r = r.wrapping_mul(self.norm());
        }
        Amount(r)
    }
    /// ruint's narrowing conversions.  Above the target's range the result is exact (MAX / wrapped / panic);
    /// inside it the value becomes a native integer, which this runtime can only represent by pinning the
    /// path to the current model's value (recorded as a sample: the harness covers "narrowed_within_range")
    pub fn saturating_to<T: Narrow>(&self) -> T {
        let v = self.norm();
        if v.slt(T::limit()).get() {
            symrt::cover("narrowed_within_range_sampled");
            T::from_u256(v.concretize_by_model())
        } else {
            T::max()
        }
    }
    pub fn to<T: Narrow>(&self) -> T {
        let v = self.norm();
        if v.slt(T::limit()).get() {
            symrt::cover("narrowed_within_range_sampled");
            T::from_u256(v.concretize_by_model())
        } else {
            panic!("Uint::to: value does not fit the target type")
        }
    }
    pub fn wrapping_to<T: Narrow>(&self) -> T {
        symrt::cover("narrowed_within_range_sampled");
        T::from_u256(self.norm().concretize_by_model() & (T::limit_u256() - ruint::aliases::U256::from(1u8)))
    }
    /// ruint's div_rem: quotient and remainder of one division (same division lemma as `/` and `%`)
    pub fn div_rem(self, rhs: Amount) -> (Amount, Amount) {
        (self / rhs, self % rhs)
    }
    pub fn as_le_bytes(&self) -> Vec<u8> {
        let v: [u8; 32] = self.norm().model_value().to_le_bytes();
        v.to_vec()
    }
}
pub trait Narrow {
    fn limit_u256() -> ruint::aliases::U256;
    fn limit() -> SymU<256> {
        SymU::konst_u256(Self::limit_u256())
    }
    fn from_u256(v: ruint::aliases::U256) -> Self;
    fn max() -> Self;
}
impl Narrow for u128 {
    fn limit_u256() -> ruint::aliases::U256 { ruint::aliases::U256::from(1u8) << 128 }
    fn from_u256(v: ruint::aliases::U256) -> Self { v.to::<u128>() }
    fn max() -> Self { u128::MAX }
}
impl Narrow for u64 {
    fn limit_u256() -> ruint::aliases::U256 { ruint::aliases::U256::from(1u8) << 64 }
    fn from_u256(v: ruint::aliases::U256) -> Self { v.to::<u64>() }
    fn max() -> Self { u64::MAX }
}
impl From<u64> for Amount {
    fn from(v: u64) -> Self {
        Amount(SymU::konst(v))
    }
}
impl From<u128> for Amount {
    fn from(v: u128) -> Self {
        Amount(SymU::konst_u256(ruint::aliases::U256::from(v)))
    }
}
impl From<i32> for Amount {
    fn from(v: i32) -> Self {
        Amount(SymU::konst(v as u64))
    }
}
impl std::ops::Div for Amount {
    type Output = Amount;
    fn div(self, d: Amount) -> Amount {
        Amount(divrem(self.norm(), d.norm()).0)
    }
}
impl std::ops::Rem for Amount {
    type Output = Amount;
    fn rem(self, d: Amount) -> Amount {
        Amount(divrem(self.norm(), d.norm()).1)
    }
}
impl std::ops::Mul for Amount {
    type Output = Amount;
    fn mul(self, o: Amount) -> Amount {
        Amount(self.norm().wrapping_mul(o.norm()))
    }
}
impl std::ops::Add for Amount {
    type Output = Amount;
    fn add(self, o: Amount) -> Amount {
        Amount(self.norm().wrapping_add(o.norm()))
    }
}
thread_local! {
    pub static SYMBOLIC_PARSE: RefCell<bool> = RefCell::new(false);
    pub static PARSED: RefCell<Vec<(String, SymU<256>)>> = RefCell::new(Vec::new());
}
pub fn set_symbolic_parse(b: bool) {
    SYMBOLIC_PARSE.with(|p| *p.borrow_mut() = b);
}
impl std::str::FromStr for Amount {
    type Err = ();
    /// concrete mode: ruint's real parser.  symbolic mode (digit templates): the digits of `s` are
    /// placeholders -- the value is any number with at most that many decimal digits (any 256-bit
    /// value when the template is 78 digits or longer); ruint's parser is the trusted part
    fn from_str(s: &str) -> std::result::Result<Self, ()> {
        if !SYMBOLIC_PARSE.with(|p| *p.borrow()) {
            return s.parse::<ruint::aliases::U256>().map(|v| Amount(SymU::konst_u256(v))).map_err(|_| ());
        }
        if s.is_empty() || !s.bytes().all(|b| b.is_ascii_digit()) {
            return Err(());
        }
        let v = SymU::<256>::fresh_auto("parsed");
        if s.len() < 78 {
            let bound = ruint::aliases::U256::from(10u8).pow(ruint::aliases::U256::from(s.len() as u64));
            assume(v.slt(SymU::konst_u256(bound)).0);
        }
        PARSED.with(|p| p.borrow_mut().push((s.to_string(), v)));
        Ok(Amount(v))
    }
}
impl std::hash::Hash for Amount {
    fn hash<H: std::hash::Hasher>(&self, h: &mut H) {
        self.0 .0.hash(h)
    }
}
impl serde::Serialize for Amount {
    fn serialize<S: serde::Serializer>(&self, s: S) -> std::result::Result<S::Ok, S::Error> {
        s.serialize_u64(0)
    }
}
impl<'de> serde::Deserialize<'de> for Amount {
    fn deserialize<D: serde::Deserializer<'de>>(d: D) -> std::result::Result<Self, D::Error> {
        let _ = u64::deserialize(d)?;
        Ok(Amount::zero())
    }
}
impl std::fmt::Display for Amount {
    fn fmt(&self, f: &mut std::fmt::Formatter<'_>) -> std::fmt::Result {
        let idx = REQUESTS.with(|r| {
            let mut r = r.borrow_mut();
            r.push(FmtRequest {
                term: self.norm(),
                width: f.width(),
                zero_pad: f.sign_aware_zero_pad(),
                fill: f.fill(),
                alternate: f.alternate(),
                precision: f.precision(),
            });
            r.len() - 1
        });
        write!(f, "\u{1}{idx}\u{2}")
    }
}

pub mod evmlib {
    pub mod common {
        pub use super::super::Amount;
    }
}
