//! C05 harnesses over the transplanted quorum accumulation items (child module).
use super::*;
use crate::runner::Harness;
use std::num::NonZeroUsize;
use symrt::{assume, check, check_bool, choice, cover, note, SymBool, SymU};
use tokio::sync::oneshot::{self, error::TryRecvError};

pub fn harnesses() -> Vec<Harness> {
    vec![
        Harness { name: "c05_event_step", property: "C05", f: c05_event_step, about: "one reply / terminating event on an arbitrary pending read (<=2 versions, <=2 responders each, 1..2 callers, any quorum, optional expected value) with symbolic peer and content identities" },
        Harness { name: "c05_split_transactions", property: "C05", f: c05_split_transactions, about: "peers hold differing versions of a transaction record (plus a version of another kind); when one version reaches the quorum the caller gets the union of all transactions or the full set of versions" },
        Harness { name: "c05_dedup", property: "C05", f: c05_dedup, about: "a second caller for a key that is already being read is attached to the running query: the outcome it receives must satisfy its own quorum and expected value" },
    ]
}

type Msg = std::result::Result<Record, GetRecordError>;
fn the_key() -> RecordKey {
    RecordKey::new(&[7u8; 32])
}
fn rec(c: Content) -> Record {
    Record { key: the_key(), value: c, publisher: None, expires: None }
}
fn quorum_of(i: usize) -> Quorum {
    match i {
        0 => Quorum::One,
        1 => Quorum::N(NonZeroUsize::new(2).unwrap()),
        2 => Quorum::Majority,
        _ => Quorum::All,
    }
}
/// required number of identical copies as the property states it (not taken from the code under test)
fn spec_quorum(i: usize) -> usize {
    match i {
        0 => 1,
        1 => 2,
        2 => CLOSE_GROUP_SIZE / 2 + 1,
        _ => CLOSE_GROUP_SIZE,
    }
}
fn drain(rx: &mut oneshot::Receiver<Msg>) -> (usize, Option<Msg>) {
    match rx.try_recv() {
        Ok(m) => (1, Some(m)),
        Err(TryRecvError::Empty) => (0, None),
        Err(TryRecvError::Closed) => (0, None),
    }
}

struct Pre {
    versions: Vec<(SymU<256>, Vec<SymU<256>>)>, // (content identity, distinct responders)
}

/// arbitrary pending state satisfying the invariant: keys of the version map are pairwise different
/// contents, responders of one version are pairwise different peers, no version has reached the quorum
fn build_pre(d: &mut SwarmDriver, q: usize, n_senders: usize, target: Option<Record>, quorum: Quorum) -> (Pre, Vec<oneshot::Receiver<Msg>>) {
    let n_versions = choice(1 + std::env::var("C05_MAXV").ok().and_then(|v| v.parse().ok()).unwrap_or(2usize));
    let mut versions = vec![];
    let mut result_map: GetRecordResultMap = HashMap::new();
    for v in 0..n_versions {
        let c = SymU::<256>::fresh(&format!("content_v{v}"));
        for (pc, _) in &versions {
            let pc: &SymU<256> = pc;
            assume(pc.seq(c).not().0);
        }
        let max_r: usize = std::env::var("C05_MAXR").ok().and_then(|v| v.parse().ok()).unwrap_or(2usize);
        let max_resp = max_r.min(q.saturating_sub(1)).max(1);
        let n_resp = 1 + choice(max_resp);
        let mut peers: Vec<SymU<256>> = vec![];
        let mut set: HashSet<PeerId> = HashSet::new();
        for r in 0..n_resp {
            let p = SymU::<256>::fresh(&format!("peer_v{v}_r{r}"));
            for pp in &peers {
                assume(pp.seq(p).not().0);
            }
            peers.push(p);
            set.0.push(PeerId(p));
        }
        result_map.0.push((XorName(c), (rec(Content::Opaque(c)), set)));
        versions.push((c, peers));
    }
    let mut senders = vec![];
    let mut receivers = vec![];
    for _ in 0..n_senders {
        let (tx, rx) = oneshot::channel::<Msg>();
        senders.push(tx);
        receivers.push(rx);
    }
    let cfg = GetRecordCfg { get_quorum: quorum, retry_strategy: None, target_record: target, expected_holders: HashSet::new(), is_register: false };
    d.pending_get_record.0.push((QueryId(1), (the_key(), senders, result_map, cfg)));
    (Pre { versions }, receivers)
}

fn c05_event_step() {
    let self_id = SymU::<256>::fresh("self_peer");
    let mut d = SwarmDriver::new(PeerId(self_id));
    let qi = choice(4);
    let quorum = quorum_of(qi);
    let q = spec_quorum(qi);
    check_bool("step:quorum_value_as_specified", get_quorum_value(&quorum) == q);
    let n_senders = 1 + choice(2);
    let has_target = choice(2) == 1;
    let target_c = SymU::<256>::fresh("expected_content");
    let target = if has_target { Some(rec(Content::Opaque(target_c))) } else { None };
    let (pre, mut rxs) = build_pre(&mut d, q, n_senders, target, quorum);
    // invariant: no version has already reached the quorum (otherwise the read would have completed)
    for (_, peers) in &pre.versions {
        if peers.len() >= q {
            symrt::prune();
        }
    }
    let ev = choice(5);
    let step = ProgressStep { count: NonZeroUsize::new(1 + pre.versions.len()).unwrap(), last: ev != 0 };
    let names = ["reply", "finished", "not found", "quorum failed", "timeout"];
    note(format!("quorum={q} callers={n_senders} expected_value={has_target} versions={:?} event={}", pre.versions.iter().map(|v| v.1.len()).collect::<Vec<_>>(), names[ev]));
    let mut reply: Option<(SymU<256>, SymU<256>)> = None;
    let r = match ev {
        0 => {
            let from_self = choice(4) == 3;
            let p = if from_self { self_id } else { SymU::<256>::fresh("replying_peer") };
            let c = SymU::<256>::fresh("reply_content");
            reply = Some((p, c));
            d.accumulate_get_record_found(QueryId(1), PeerRecord { peer: if from_self { None } else { Some(PeerId(p)) }, record: rec(Content::Opaque(c)) }, QueryStats, step)
        }
        1 => d.handle_get_record_finished(QueryId(1), step),
        2 => d.handle_get_record_error(QueryId(1), kad::GetRecordError::NotFound { key: the_key() }, QueryStats, step),
        3 => d.handle_get_record_error(QueryId(1), kad::GetRecordError::QuorumFailed { key: the_key() }, QueryStats, step),
        _ => d.handle_get_record_error(QueryId(1), kad::GetRecordError::Timeout { key: the_key() }, QueryStats, step),
    };
    check_bool("step:handler_returns_ok", r.is_ok());
    let still_pending = d.pending_get_record.0.iter().any(|(id, _)| *id == QueryId(1));
    let msgs: Vec<(usize, Option<Msg>)> = rxs.iter_mut().map(drain).collect();
    // ghost: distinct responders per content after the event
    let mut after: Vec<(SymU<256>, usize)> = pre.versions.iter().map(|(c, p)| (*c, p.len())).collect();
    if let Some((p, c)) = reply {
        let mut matched = false;
        for (i, (vc, peers)) in pre.versions.iter().enumerate() {
            if vc.seq(c).get() {
                matched = true;
                let dup = peers.iter().any(|pp| pp.seq(p).get());
                if dup {
                    cover("same_peer_answers_twice");
                } else {
                    after[i].1 += 1;
                }
            }
        }
        if !matched {
            after.push((c, 1));
        }
    }
    let terminal = !still_pending;
    if terminal {
        cover("terminal");
        for (n, _) in &msgs {
            check_bool("step:every_waiting_caller_gets_exactly_one_outcome", *n == 1);
        }
        check_bool("step:all_callers_get_the_same_outcome", msgs.windows(2).all(|w| same_kind(w[0].1.as_ref().unwrap(), w[1].1.as_ref().unwrap())));
    } else {
        cover("still_pending");
        for (n, _) in &msgs {
            check_bool("step:no_outcome_before_the_read_terminates", *n == 0);
        }
        // the read must not linger once some version has the quorum
        for (_, n) in &after {
            check_bool("step:quorum_reached_terminates_the_read", *n < q);
        }
        check_bool("step:only_a_reply_keeps_the_read_pending", ev == 0);
    }
    for (_, m) in &msgs {
        match m {
            Some(Ok(v)) => {
                cover("value_returned");
                let Content::Opaque(vc) = &v.value else { panic!("opaque content expected") };
                // enough distinct peers returned exactly this content
                let mut supporters = 0usize;
                for (c, n) in &after {
                    if c.seq(*vc).get() {
                        supporters = *n;
                    }
                }
                check_bool("step:value_only_with_quorum_of_distinct_peers", supporters >= q);
                if has_target {
                    check("step:value_equals_callers_expected_value", vc.seq(target_c).0);
                }
                check_bool("step:value_only_when_peers_agree", after.len() == 1);
            }
            Some(Err(GetRecordError::SplitRecord { result_map })) => {
                cover("split_returned");
                // the caller receives the full set of versions, never an arbitrary pick
                check_bool("step:split_carries_every_version", result_map.len() == after.len() && after.len() > 1);
                for (c, n) in &after {
                    let found = result_map.0.iter().find(|(k, _)| k.0.seq(*c).get());
                    check_bool("step:split_version_present_with_its_responders", found.map(|(_, (_, peers))| peers.len() == *n).unwrap_or(false));
                }
            }
            Some(Err(GetRecordError::RecordDoesNotMatch(v))) => {
                cover("mismatch_returned");
                let Content::Opaque(vc) = &v.value else { panic!("opaque content expected") };
                check("step:mismatch_only_when_value_differs_from_expected", vc.seq(target_c).not().0);
                check_bool("step:mismatch_only_with_expected_value", has_target);
            }
            Some(Err(GetRecordError::RecordNotFound)) => {
                cover("not_found_returned");
                check_bool("step:not_found_only_without_any_copy_or_on_kad_failure", after.is_empty() || ev == 2 || ev == 3);
            }
            Some(Err(GetRecordError::NotEnoughCopies { got, expected, .. })) => {
                cover("not_enough_returned");
                check_bool("step:not_enough_copies_is_truthful", *got < *expected && *expected == q && after.len() == 1 && after[0].1 == *got);
            }
            Some(Err(GetRecordError::QueryTimeout)) => {
                cover("timeout_returned");
                check_bool("step:timeout_only_on_timeout", ev == 4);
            }
            Some(Err(GetRecordError::RecordKindMismatch)) => { check_bool("step:unexpected_kind_mismatch", false); }
            None => {}
        }
    }
}

fn same_kind(a: &Msg, b: &Msg) -> bool {
    std::mem::discriminant(a) == std::mem::discriminant(b) && match (a, b) {
        (Err(x), Err(y)) => std::mem::discriminant(x) == std::mem::discriminant(y),
        _ => true,
    }
}

fn c05_split_transactions() {
    let self_id = SymU::<256>::fresh("self_peer");
    let mut d = SwarmDriver::new(PeerId(self_id));
    // three versions, one responder each, held in the version map in any order:
    // a record that is not a transaction record, transactions {A}, transactions {B, C}
    let junk = SymU::<256>::fresh("junk_content");
    let versions: Vec<Content> = vec![Content::Opaque(junk), Content::Transactions(vec![Transaction(1)]), Content::Transactions(vec![Transaction(2), Transaction(3)])];
    let perms: [[usize; 3]; 6] = [[0, 1, 2], [0, 2, 1], [1, 0, 2], [1, 2, 0], [2, 0, 1], [2, 1, 0]];
    let order = perms[choice(6)];
    let with_junk = choice(2) == 1;
    let mut result_map: GetRecordResultMap = HashMap::new();
    let mut n_versions = 0usize;
    let mut firsts: Vec<SymU<256>> = vec![];
    for (slot, vi) in order.iter().enumerate() {
        if *vi == 0 && !with_junk {
            continue;
        }
        let p = SymU::<256>::fresh(&format!("first_responder_{slot}"));
        firsts.push(p);
        let mut set: HashSet<PeerId> = HashSet::new();
        set.0.push(PeerId(p));
        let r = rec(versions[*vi].clone());
        result_map.0.push((XorName::from_content(&r.value), (r, set)));
        n_versions += 1;
    }
    let (tx, mut rx) = oneshot::channel::<Msg>();
    let quorum = Quorum::N(NonZeroUsize::new(2).unwrap());
    let cfg = GetRecordCfg { get_quorum: quorum, retry_strategy: None, target_record: None, expected_holders: HashSet::new(), is_register: false };
    d.pending_get_record.0.push((QueryId(1), (the_key(), vec![tx], result_map, cfg)));
    // a further peer answers with one of the transaction versions: that version reaches the quorum of 2
    let which = 1 + choice(2);
    let p = SymU::<256>::fresh("second_responder");
    // a peer that has not answered yet (the same peer answering twice is c05_event_step's subject)
    for f in &firsts {
        assume(f.seq(p).not().0);
    }
    // collision freedom of the content hash: the opaque version's identity is not a transaction list's identity
    for v in &versions[1..] {
        assume(junk.seq(XorName::from_content(v).0).not().0);
    }
    note(format!("versions in map order {:?} (0 = not a transaction record, present={with_junk}); version {which} reaches the quorum", order));
    let step = ProgressStep { count: NonZeroUsize::new(1 + n_versions).unwrap(), last: false };
    let r = d.accumulate_get_record_found(QueryId(1), PeerRecord { peer: Some(PeerId(p)), record: rec(versions[which].clone()) }, QueryStats, step);
    check_bool("split_tx:handler_returns_ok", r.is_ok());
    let (n, msg) = drain(&mut rx);
    cover("completed");
    check_bool("split_tx:caller_gets_one_outcome", n == 1);
    match msg {
        Some(Ok(v)) => {
            cover("union_returned");
            match &v.value {
                Content::Transactions(txs) => {
                    let mut got: Vec<u8> = txs.iter().map(|t| t.0).collect();
                    got.sort();
                    check_bool("split_tx:value_is_the_union_of_all_received_transactions", got == vec![1, 2, 3]);
                }
                _ => {
                    check_bool("split_tx:value_is_the_union_of_all_received_transactions", false);
                }
            }
        }
        Some(Err(GetRecordError::SplitRecord { result_map })) => {
            cover("split_returned");
            check_bool("split_tx:split_carries_every_version", result_map.len() == n_versions);
        }
        _ => {
            check_bool("split_tx:differing_versions_end_in_union_or_full_split", false);
        }
    }
}

fn c05_dedup() {
    let self_id = SymU::<256>::fresh("self_peer");
    let mut d = SwarmDriver::new(PeerId(self_id));
    // first caller: some quorum, no expected value
    let q1i = choice(3);
    let cfg1 = GetRecordCfg { get_quorum: quorum_of(q1i), retry_strategy: None, target_record: None, expected_holders: HashSet::new(), is_register: false };
    let (tx1, mut rx1) = oneshot::channel::<Msg>();
    d.arm_get_network_record(the_key(), tx1, cfg1).expect("first caller");
    check_bool("dedup:first_caller_starts_a_query", d.swarm.behaviour.kademlia.started.len() == 1);
    // second caller for the same key: its own quorum and expected value
    let q2i = choice(3);
    let expected2 = SymU::<256>::fresh("second_callers_expected_content");
    let has_target2 = choice(2) == 1;
    let cfg2 = GetRecordCfg { get_quorum: quorum_of(q2i), retry_strategy: None, target_record: if has_target2 { Some(rec(Content::Opaque(expected2))) } else { None }, expected_holders: HashSet::new(), is_register: false };
    let (tx2, mut rx2) = oneshot::channel::<Msg>();
    d.arm_get_network_record(the_key(), tx2, cfg2).expect("second caller");
    check_bool("dedup:second_caller_joins_the_running_query", d.swarm.behaviour.kademlia.started.len() == 1 && d.pending_get_record.len() == 1);
    let qid = d.swarm.behaviour.kademlia.started[0].0;
    // replies: the same content from distinct peers until the read terminates (at most 5)
    let content = SymU::<256>::fresh("reply_content");
    let mut peers: Vec<SymU<256>> = vec![];
    let mut replies = 0usize;
    while d.pending_get_record.len() == 1 && replies < CLOSE_GROUP_SIZE {
        let p = SymU::<256>::fresh(&format!("replying_peer{replies}"));
        for pp in &peers {
            assume(pp.seq(p).not().0);
        }
        peers.push(p);
        replies += 1;
        let step = ProgressStep { count: NonZeroUsize::new(replies).unwrap(), last: false };
        d.accumulate_get_record_found(qid, PeerRecord { peer: Some(PeerId(p)), record: rec(Content::Opaque(content)) }, QueryStats, step).expect("accumulate");
    }
    let q1 = spec_quorum(q1i);
    let q2 = spec_quorum(q2i);
    check_bool("dedup:quorum_value_as_specified", get_quorum_value(&quorum_of(q1i)) == q1 && get_quorum_value(&quorum_of(q2i)) == q2);
    note(format!("first caller quorum {q1}, second caller quorum {q2} expected_value={has_target2}; {replies} distinct peers replied"));
    let (n1, m1) = drain(&mut rx1);
    let (n2, m2) = drain(&mut rx2);
    cover("both_waiting");
    check_bool("dedup:every_waiting_caller_gets_exactly_one_outcome", n1 == 1 && n2 == 1);
    if let Some(Ok(v)) = m1 {
        check_bool("dedup:first_caller_value_has_its_quorum", replies >= q1);
        let _ = v;
    }
    if let Some(Ok(v)) = m2 {
        cover("second_caller_got_value");
        let Content::Opaque(vc) = &v.value else { panic!() };
        let quorum_ok = replies >= q2;
        let target_ok = !has_target2 || vc.seq(expected2).get();
        if !(quorum_ok && target_ok) {
            check_bool("dedup:attached_caller_value_satisfies_its_own_quorum_and_expected_value[joined_query_uses_first_callers_cfg]", false);
        } else {
            check_bool("dedup:attached_caller_value_satisfies_its_own_quorum_and_expected_value", true);
        }
    }
}
