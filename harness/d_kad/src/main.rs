//! d_kad: quorum accumulation of GetRecord replies (ant-networking event/kad.rs items, the
//! GetNetworkRecord arm of cmd.rs, GetRecordCfg, get_quorum_value) over symbolic peer and
//! content identities.
#![allow(dead_code, unused_imports, unused_variables, unused_mut, clippy::all)]
// path-qualified uses (`tracing::warn!(..)`) in transplanted code resolve to no-op macros
extern crate noop_tracing as tracing;
macro_rules! trace { ($($t:tt)*) => { if false { let _ = format!($($t)*); } } }
macro_rules! debug { ($($t:tt)*) => { if false { let _ = format!($($t)*); } } }
macro_rules! info { ($($t:tt)*) => { if false { let _ = format!($($t)*); } } }
macro_rules! warn { ($($t:tt)*) => { if false { let _ = format!($($t)*); } } }
macro_rules! error { ($($t:tt)*) => { if false { let _ = format!($($t)*); } } }
pub mod shim;
#[path = "gen/kad_items.rs"]
pub mod kad_items;
mod runner;
fn main() {
    runner::main_dispatch(kad_items::harness::harnesses());
}
