//! Shims for the quorum accumulation items.  Peer identities and record contents are symbolic
//! 256-bit identities whose equality is decided by the solver (collections are symrt::assoc).
#![allow(dead_code)]
pub use libp2p::kad::{Quorum, RecordKey};
pub use std::collections::BTreeSet;
use symrt::SymU;

pub const CLOSE_GROUP_SIZE: usize = 5;

pub mod collections {
    pub use symrt::assoc::collections::*;
}
pub use symrt::assoc::{HashMap, HashSet};

#[derive(Clone, Copy, Debug, PartialEq, Eq)]
pub struct PeerId(pub SymU<256>);
#[derive(Clone, Copy, Debug, PartialEq, Eq)]
pub struct XorName(pub SymU<256>);

/// what a record carries: opaque content (identity only) or a set of transactions (ids)
#[derive(Clone, Debug, PartialEq, Eq)]
pub enum Content {
    Opaque(SymU<256>),
    Transactions(Vec<Transaction>),
}
#[derive(Clone, Copy, Debug, PartialEq, Eq, PartialOrd, Ord)]
pub struct Transaction(pub u8);

#[derive(Clone, Debug, PartialEq, Eq)]
pub struct Record {
    pub key: RecordKey,
    pub value: Content,
    pub publisher: Option<PeerId>,
    pub expires: Option<u8>,
}
impl XorName {
    /// collision free: the hash of a content is its identity; a transaction list hashes to an identity
    /// derived from its members (distinct lists, distinct identities)
    pub fn from_content(c: &Content) -> XorName {
        match c {
            Content::Opaque(id) => XorName(*id),
            Content::Transactions(v) => {
                let mut n: u64 = 0xfeed_0000;
                for t in v {
                    n = n * 257 + t.0 as u64 + 1;
                }
                XorName(SymU::konst(n))
            }
        }
    }
}

pub struct PrettyPrintRecordKey;
impl PrettyPrintRecordKey {
    pub fn from(_k: &RecordKey) -> Self {
        PrettyPrintRecordKey
    }
    pub fn into_owned(self) -> Self {
        self
    }
}
impl std::fmt::Debug for PrettyPrintRecordKey {
    fn fmt(&self, f: &mut std::fmt::Formatter<'_>) -> std::fmt::Result {
        write!(f, "key")
    }
}
#[derive(Debug)]
pub struct NetworkAddress;
impl NetworkAddress {
    pub fn from_record_key(_k: &RecordKey) -> Self {
        NetworkAddress
    }
}
#[derive(Clone, Debug)]
pub struct RetryStrategy;

#[derive(Clone, Debug, PartialEq)]
pub struct SignedRegister;
impl SignedRegister {
    pub fn base_register(&self) -> u8 {
        0
    }
    pub fn ops(&self) -> u8 {
        0
    }
}
#[derive(Debug)]
pub struct DecodeError;
/// only register targets go through this in the transplanted code; the harness does not use them
pub fn try_deserialize_record<T>(_r: &Record) -> std::result::Result<T, DecodeError> {
    Err(DecodeError)
}
pub fn get_transactions_from_record(r: &Record) -> std::result::Result<Vec<Transaction>, DecodeError> {
    match &r.value {
        Content::Transactions(v) => Ok(v.clone()),
        _ => Err(DecodeError),
    }
}
pub enum RecordKind {
    Transaction,
}
pub struct SerBytes(Content);
impl SerBytes {
    pub fn to_vec(&self) -> Content {
        self.0.clone()
    }
}
pub fn try_serialize_record(v: &Vec<Transaction>, _k: RecordKind) -> Result<SerBytes> {
    Ok(SerBytes(Content::Transactions(v.clone())))
}

#[derive(Clone, Debug)]
pub enum GetRecordError {
    NotEnoughCopies { record: Record, expected: usize, got: usize },
    QueryTimeout,
    RecordDoesNotMatch(Record),
    RecordKindMismatch,
    RecordNotFound,
    SplitRecord { result_map: HashMap<XorName, (Record, HashSet<PeerId>)> },
}
#[derive(Debug)]
pub enum NetworkError {
    InternalMsgChannelDropped,
    ReceivedKademliaEventDropped { query_id: QueryId, event: String },
}
pub type Result<T, E = NetworkError> = std::result::Result<T, E>;

#[derive(Clone, Copy, Debug, PartialEq, Eq)]
pub struct QueryId(pub u32);
pub struct PeerRecord {
    pub peer: Option<PeerId>,
    pub record: Record,
}
#[derive(Clone, Debug, Default)]
pub struct QueryStats;
#[derive(Clone, Debug)]
pub struct ProgressStep {
    pub count: std::num::NonZeroUsize,
    pub last: bool,
}
pub mod kad {
    use super::RecordKey;
    #[derive(Debug)]
    pub enum GetRecordError {
        NotFound { key: RecordKey },
        QuorumFailed { key: RecordKey },
        Timeout { key: RecordKey },
    }
}

// ---- model SwarmDriver: the fields these items touch ----
pub type GetRecordResultMap = HashMap<XorName, (Record, HashSet<PeerId>)>;
pub type PendingGetRecord = HashMap<
    QueryId,
    (RecordKey, Vec<tokio::sync::oneshot::Sender<std::result::Result<Record, GetRecordError>>>, GetRecordResultMap, crate::kad_items::GetRecordCfg),
>;
pub struct QueryMut<'a>(&'a mut Vec<QueryId>, QueryId);
impl<'a> QueryMut<'a> {
    pub fn finish(&mut self) {
        self.0.push(self.1);
    }
}
pub struct Kad {
    pub finished: Vec<QueryId>,
    pub started: Vec<(QueryId, RecordKey)>,
    next: u32,
}
impl Kad {
    pub fn query_mut(&mut self, id: &QueryId) -> Option<QueryMut<'_>> {
        Some(QueryMut(&mut self.finished, *id))
    }
    pub fn get_record(&mut self, key: RecordKey) -> QueryId {
        self.next += 1;
        let id = QueryId(100 + self.next);
        self.started.push((id, key));
        id
    }
}
pub struct Behaviour {
    pub kademlia: Kad,
}
pub struct Swarm {
    pub behaviour: Behaviour,
}
impl Swarm {
    pub fn behaviour_mut(&mut self) -> &mut Behaviour {
        &mut self.behaviour
    }
}
pub struct SwarmDriver {
    pub self_peer_id: PeerId,
    pub pending_get_record: PendingGetRecord,
    pub swarm: Swarm,
}
impl SwarmDriver {
    pub fn new(self_peer_id: PeerId) -> Self {
        SwarmDriver { self_peer_id, pending_get_record: HashMap::new(), swarm: Swarm { behaviour: Behaviour { kademlia: Kad { finished: vec![], started: vec![], next: 0 } } } }
    }
}
