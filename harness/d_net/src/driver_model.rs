//! Model SwarmDriver: exactly the fields the transplanted cmd.rs arms touch.
use crate::event::NetworkEvent;
use crate::record_store_api::UnifiedRecordStore;
use crate::replication_fetcher::ReplicationFetcher;
use crate::shim::tokio::sync::mpsc;
use crate::shim::{Instant, KKey, KPeer, NetworkAddress};
use crate::cmd::NetworkSwarmCmd;
use crate::shim::libp2p::PeerId;
use std::collections::BTreeMap;

pub struct Kad {
    pub store: UnifiedRecordStore,
    /// model routing table (does not contain self)
    pub routing_table: Vec<PeerId>,
}
impl Kad {
    pub fn store_mut(&mut self) -> &mut UnifiedRecordStore {
        &mut self.store
    }
    /// libp2p's contract: all peers of the routing table, ascending by XOR distance to the key
    pub fn get_closest_local_peers(&mut self, key: &KKey) -> impl Iterator<Item = KPeer> {
        let target = NetworkAddress { bytes: key.bytes.clone(), is_peer: false };
        let mut v = self.routing_table.clone();
        v.sort_by(|a, b| {
            target.distance(&NetworkAddress::from_peer(*a)).cmp(&target.distance(&NetworkAddress::from_peer(*b)))
        });
        v.into_iter().map(KPeer)
    }
}
pub struct Behaviour {
    pub kademlia: Kad,
}
pub struct Swarm {
    pub behaviour: Behaviour,
}
impl Swarm {
    pub fn behaviour_mut(&mut self) -> &mut Behaviour {
        &mut self.behaviour
    }
}
pub struct SwarmDriver {
    pub swarm: Swarm,
    pub replication_fetcher: ReplicationFetcher,
    pub hard_disk_write_error: usize,
    pub event_sender: mpsc::Sender<NetworkEvent>,
    pub self_peer_id: PeerId,
    pub last_replication: Option<Instant>,
    pub replication_targets: BTreeMap<PeerId, Instant>,
    pub network_cmd_sender: mpsc::Sender<NetworkSwarmCmd>,
    pub network_cmd_rx: mpsc::Receiver<NetworkSwarmCmd>,
}

impl SwarmDriver {
    pub fn new(
        store: UnifiedRecordStore,
        fetcher: ReplicationFetcher,
        event_sender: mpsc::Sender<NetworkEvent>,
    ) -> Self {
        let (ntx, nrx) = mpsc::channel::<NetworkSwarmCmd>(100);
        SwarmDriver {
            swarm: Swarm { behaviour: Behaviour { kademlia: Kad { store, routing_table: vec![] } } },
            replication_fetcher: fetcher,
            hard_disk_write_error: 0,
            event_sender,
            self_peer_id: crate::util::self_peer(),
            last_replication: None,
            replication_targets: BTreeMap::new(),
            network_cmd_sender: ntx,
            network_cmd_rx: nrx,
        }
    }
    pub(crate) fn log_handling<D>(&mut self, _s: String, _d: D) {}
    pub fn store(&mut self) -> &mut UnifiedRecordStore {
        &mut self.swarm.behaviour.kademlia.store
    }
    pub fn node_store(&mut self) -> &mut crate::record_store::NodeRecordStore {
        match &mut self.swarm.behaviour.kademlia.store {
            UnifiedRecordStore::Node(s) => s,
            _ => panic!("not a node store"),
        }
    }
}
