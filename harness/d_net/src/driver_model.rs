//! Model SwarmDriver: exactly the fields the transplanted cmd.rs arms touch.
use crate::event::NetworkEvent;
use crate::record_store_api::UnifiedRecordStore;
use crate::replication_fetcher::ReplicationFetcher;
use crate::shim::tokio::sync::mpsc;

pub struct Kad {
    pub store: UnifiedRecordStore,
}
impl Kad {
    pub fn store_mut(&mut self) -> &mut UnifiedRecordStore {
        &mut self.store
    }
}
pub struct Behaviour {
    pub kademlia: Kad,
}
pub struct Swarm {
    pub behaviour: Behaviour,
}
impl Swarm {
    pub fn behaviour_mut(&mut self) -> &mut Behaviour {
        &mut self.behaviour
    }
}
pub struct SwarmDriver {
    pub swarm: Swarm,
    pub replication_fetcher: ReplicationFetcher,
    pub hard_disk_write_error: usize,
    pub event_sender: mpsc::Sender<NetworkEvent>,
}

impl SwarmDriver {
    pub fn new(
        store: UnifiedRecordStore,
        fetcher: ReplicationFetcher,
        event_sender: mpsc::Sender<NetworkEvent>,
    ) -> Self {
        SwarmDriver {
            swarm: Swarm { behaviour: Behaviour { kademlia: Kad { store } } },
            replication_fetcher: fetcher,
            hard_disk_write_error: 0,
            event_sender,
        }
    }
    pub(crate) fn log_handling(&mut self, _s: String, _d: std::time::Duration) {}
    pub fn store(&mut self) -> &mut UnifiedRecordStore {
        &mut self.swarm.behaviour.kademlia.store
    }
    pub fn node_store(&mut self) -> &mut crate::record_store::NodeRecordStore {
        match &mut self.swarm.behaviour.kademlia.store {
            UnifiedRecordStore::Node(s) => s,
            _ => panic!("not a node store"),
        }
    }
}
