//! Harnesses over the transplanted driver-level functions: interval replication (C09 a),
//! acceptance of replication lists (C09 b), closeness decisions (C11 iii).
use crate::closest_items::{sort_peers_by_address, Node};
use crate::driver_fns::get_peers_in_range;
use crate::cmd::NetworkSwarmCmd;
use crate::error::NetworkError;
use crate::event::NetworkEvent;
use crate::shim::ant_protocol::messages::{Cmd, Request};
use crate::shim::ant_protocol::CLOSE_GROUP_SIZE;
use crate::shim::libp2p::PeerId;
use crate::shim::{advance_clock, set_clock_frozen, Instant, NetworkAddress, U256};
use crate::util::*;
use ant_protocol::storage::RecordType;
use symrt::env;
use symrt::{assume, check, check_bool, choice, cover, note, SymBool, SymU};

pub fn harnesses() -> Vec<Harness> {
    vec![
        Harness { name: "c09_advertise", property: "C09", f: c09_advertise, about: "interval replication sends every held (address,type) to exactly the replication candidates not served recently" },
        Harness { name: "c09_receive", property: "C09", f: c09_receive, about: "a replication list is acted on only if its sender is a peer among the K closest and not self" },
        Harness { name: "c11_candidates", property: "C11", f: c11_candidates, about: "get_replicate_candidates / get_peers_in_range order and filter exactly as the XOR integer does" },
        Harness { name: "c11_peers_in_range", property: "C11", f: c11_peers_in_range, about: "get_peers_in_range keeps exactly the peers whose XOR integer distance to the address is <= the range bound, in table order" },
        Harness { name: "c11_sort_peers", property: "C11", f: c11_sort_peers, about: "sort_peers_by_address returns the requested number of nearest peers ascending, or reports too few" },
        Harness { name: "c11_calc_closest", property: "C11", f: c11_calc_closest, about: "calculate_get_closest_peers: range filter exact, k nearest ascending" },
    ]
}

fn d_between(a: &NetworkAddress, p: PeerId) -> SymU<256> {
    a.distance(&NetworkAddress::from_peer(p)).0
}

/// name the peers so that p1 is closest to `to`, p2 next, ... (fixes names only)
fn assume_ordered(to: &NetworkAddress, peers: &[PeerId]) {
    for w in peers.windows(2) {
        assume(d_between(to, w[0]).slt(d_between(to, w[1])).0);
    }
}

fn c09_advertise() {
    crate::shim::init_shim();
    pin_self_reference();
    set_clock_frozen(true);
    let mut w = World::new(100, 4);
    w.settle();
    let n_held = 1 + choice(2);
    let mut held = vec![];
    for i in 0..n_held {
        let r = if i == 0 { chunk_record(&key(0), 0) } else { nonchunk_record(&key(1), 0) };
        held.push((NetworkAddress::from_record_key(&r.key), record_type_of(&r)));
        w.driver.arm_put_local_record(r).expect("put");
        w.settle();
    }
    let self_addr = NetworkAddress::from_peer(self_peer());
    let peers: Vec<PeerId> = (1..=6).map(peer).collect();
    assume_ordered(&self_addr, &peers);
    w.driver.swarm.behaviour.kademlia.routing_table = peers.clone();
    let now = Instant::now().0;
    // responsible range, last replication time, one recently served peer: all symbolic
    let range = if choice(2) == 1 {
        let r = SymU::<256>::fresh("range");
        w.driver.store().set_distance_range(U256(r));
        Some(r)
    } else {
        None
    };
    let last = if choice(2) == 1 {
        let l = SymU::<64>::fresh("last_replication");
        assume(l.sle(now).0);
        w.driver.last_replication = Some(Instant(l));
        Some(l)
    } else {
        None
    };
    let recent = if choice(2) == 1 {
        let which = choice(2); // p1 or p6
        let d = SymU::<64>::fresh("served_until");
        assume(d.slt(SymU::konst(1u64 << 62)).0);
        let p = if which == 0 { peers[0] } else { peers[5] };
        w.driver.replication_targets.insert(p, Instant(d));
        Some((p, d))
    } else {
        None
    };
    note(format!("held={n_held} range={} last={} recent={}", range.is_some(), last.is_some(), recent.is_some()));
    w.driver.try_interval_replication().expect("interval replication");
    env::run_all_tasks();
    let mut sent: Vec<(PeerId, Request)> = vec![];
    while let Some(c) = w.driver.network_cmd_rx.try_recv() {
        let NetworkSwarmCmd::SendRequest { req, peer, .. } = c;
        sent.push((peer, req));
    }
    // oracle
    let min_interval = 30_000_000_000u64;
    let skipped = match last {
        Some(l) => now.wrapping_sub(l).slt(SymU::konst(min_interval)).get(),
        None => false,
    };
    if skipped {
        cover("skipped_by_min_interval");
        check_bool("advertise:nothing_sent_within_min_interval", sent.is_empty());
        return;
    }
    cover("ran");
    let mut in_range = 0usize;
    if let Some(r) = range {
        for p in &peers {
            if d_between(&self_addr, *p).sle(r).get() {
                in_range += 1;
            }
        }
    }
    let n_cand = if range.is_some() && in_range >= CLOSE_GROUP_SIZE { in_range } else { CLOSE_GROUP_SIZE };
    let mut expected: Vec<PeerId> = peers[..n_cand].to_vec();
    if let Some((p, d)) = recent {
        // still considered served while its timestamp lies in the future
        if now.slt(d).get() {
            cover("recently_served_peer_skipped");
            expected.retain(|x| *x != p);
            // being skipped must not extend the cool-down: otherwise rounds that come faster than the cool-down
            // keep pushing the deadline out and the peer is never advertised to again
            match w.driver.replication_targets.get(&p) {
                Some(after) => {
                    check("advertise:skipped_target_keeps_its_cool_down_deadline", after.0.seq(d).0);
                }
                None => {
                    check_bool("advertise:skipped_target_keeps_its_cool_down_deadline", false);
                }
            }
        }
    }
    let recipients: Vec<PeerId> = sent.iter().map(|(p, _)| *p).collect();
    for p in &expected {
        check_bool("advertise:every_replication_target_receives_the_list", recipients.iter().filter(|x| *x == p).count() == 1);
    }
    for p in &recipients {
        check_bool("advertise:only_replication_targets_receive_the_list", expected.contains(p));
    }
    for (_p, req) in &sent {
        let Request::Cmd(Cmd::Replicate { holder, keys }) = req;
        check_bool("advertise:holder_is_self", *holder == self_addr);
        let mut a = keys.clone();
        let mut b = held.clone();
        a.sort_by_key(|(x, t)| (x.bytes.clone(), format!("{t:?}")));
        b.sort_by_key(|(x, t)| (x.bytes.clone(), format!("{t:?}")));
        check_bool("advertise:list_is_every_held_record", a == b);
    }
}

fn c09_receive() {
    crate::shim::init_shim();
    pin_self_reference();
    set_clock_frozen(true);
    let mut w = World::new(100, 4);
    w.settle();
    let self_addr = NetworkAddress::from_peer(self_peer());
    let peers: Vec<PeerId> = (1..=3).map(peer).collect();
    w.driver.swarm.behaviour.kademlia.routing_table = peers.clone();
    let who = choice(5);
    let sender = match who {
        0..=2 => NetworkAddress::from_peer(peers[who]),
        3 => self_addr.clone(),
        _ => NetworkAddress::from_record_key(&key(9)),
    };
    let _ = Instant::now();
    let k = key(0);
    note(format!("sender={}", ["p1", "p2", "p3", "self", "not-a-peer"][who]));
    w.driver.add_keys_to_replication_fetcher(sender.clone(), vec![(NetworkAddress::from_record_key(&k), RecordType::Chunk)]);
    env::run_all_tasks();
    let mut acted = false;
    while let Some(e) = w.event_rx.try_recv() {
        if let NetworkEvent::KeysToFetchForReplication(_) = e {
            acted = true;
        }
    }
    let acted = acted || !w.driver.replication_fetcher.harness_is_idle();
    // oracle: the K closest (self counts as one of them)
    let k_model = crate::K_VALUE_MODEL;
    let eligible = if who <= 2 {
        let mut closer = 0usize;
        for (i, p) in peers.iter().enumerate() {
            if i != who && d_between(&self_addr, *p).slt(d_between(&self_addr, peers[who])).get() {
                closer += 1;
            }
        }
        closer < k_model - 1
    } else {
        false
    };
    if eligible {
        cover("eligible_sender");
        check_bool("receive:list_from_close_peer_is_acted_on", acted);
    } else {
        cover("ineligible_sender");
        check_bool("receive:acts_only_on_lists_from_k_closest_peers_not_self", !acted);
    }
}

fn c11_candidates() {
    crate::shim::init_shim();
    pin_reference(key(0).as_ref());
    set_clock_frozen(true);
    let mut w = World::new(100, 4);
    w.settle();
    let target = NetworkAddress::from_record_key(&key(0));
    let peers: Vec<PeerId> = (1..=6).map(peer).collect();
    assume_ordered(&target, &peers);
    // the routing table lists them in some other order; the selection must not depend on it
    let rot = choice(3);
    let mut table = peers.clone();
    table.rotate_left(rot * 2);
    if rot == 2 {
        table.reverse();
    }
    w.driver.swarm.behaviour.kademlia.routing_table = table;
    let range = if choice(2) == 1 {
        let r = SymU::<256>::fresh("range");
        w.driver.store().set_distance_range(U256(r));
        Some(r)
    } else {
        None
    };
    let got = w.driver.get_replicate_candidates(&target);
    let mut in_range = 0usize;
    if let Some(r) = range {
        for p in &peers {
            if d_between(&target, *p).sle(r).get() {
                in_range += 1;
            }
        }
    }
    note(format!("range={} in_range={in_range} rot={rot}", range.is_some()));
    let n = if range.is_some() && in_range >= CLOSE_GROUP_SIZE { cover("by_range"); in_range } else { cover("close_group_fallback"); CLOSE_GROUP_SIZE };
    check_bool("candidates:exactly_the_expected_nearest_peers", got == peers[..n].to_vec());
    for wdw in got.windows(2) {
        check("candidates:ascending_distance", d_between(&target, wdw[0]).sle(d_between(&target, wdw[1])).0);
    }
    if let Some(r) = range {
        if n == in_range {
            for p in &got {
                check("candidates:all_within_range", d_between(&target, *p).sle(r).0);
            }
        }
    }
}

fn c11_peers_in_range() {
    crate::shim::init_shim();
    pin_reference(key(0).as_ref());
    let target = NetworkAddress::from_record_key(&key(0));
    let n = 1 + choice(2);
    let peers: Vec<PeerId> = (1..=n as u8).map(peer).collect();
    let r = SymU::<256>::fresh("range");
    let got = get_peers_in_range(&peers, &target, U256(r));
    // expected: the sub-sequence of peers at distance <= range (solver-decided per peer)
    let mut expect = vec![];
    for p in &peers {
        if d_between(&target, *p).sle(r).get() {
            expect.push(*p);
        }
    }
    note(format!("peers={n} expected_in_range={} got={}", expect.len(), got.len()));
    if expect.is_empty() { cover("none_in_range"); } else { cover("some_in_range"); }
    check_bool("in_range:exactly_the_peers_within_the_bound", got == expect);
}

fn c11_sort_peers() {
    crate::shim::init_shim();
    pin_reference(key(0).as_ref());
    let n = 3 + choice(4); // 3..6 peers
    let expected = [2usize, 5, 7][choice(3)];
    let peers: Vec<PeerId> = (1..=n as u8).map(peer).collect();
    let target = NetworkAddress::from_record_key(&key(0));
    if n == 6 {
        // keep the 6-peer case tractable: fix the relative order of the last three names
        assume(d_between(&target, peers[3]).slt(d_between(&target, peers[4])).0);
        assume(d_between(&target, peers[4]).slt(d_between(&target, peers[5])).0);
    }
    note(format!("n={n} requested={expected}"));
    let res = sort_peers_by_address(&peers, &target, expected);
    match res {
        Ok(v) => {
            cover("ok");
            if v.len() != expected && n >= CLOSE_GROUP_SIZE && n < expected {
                check_bool("sort_peers:ok_has_requested_count[too_few_peers_not_reported_when_close_group_size_is_met]", false);
            } else {
                check_bool("sort_peers:ok_has_requested_count", v.len() == expected);
            }
            for wdw in v.windows(2) {
                check("sort_peers:ascending_distance", d_between(&target, *wdw[0]).sle(d_between(&target, *wdw[1])).0);
            }
            // nearest: nobody left out is closer than somebody returned
            for p in &peers {
                if !v.iter().any(|x| *x == p) {
                    for q in &v {
                        check("sort_peers:returned_are_the_nearest", d_between(&target, **q).sle(d_between(&target, *p)).0);
                    }
                }
            }
        }
        Err(NetworkError::NotEnoughPeers { .. }) => {
            cover("too_few");
            if n >= expected {
                check_bool("sort_peers:error_only_when_too_few[fewer_than_close_group_size_but_enough_for_request]", false);
            } else {
                check_bool("sort_peers:error_only_when_too_few", n < expected);
            }
        }
        Err(_) => {
            check_bool("sort_peers:unexpected_error", false);
        }
    }
}

fn c11_calc_closest() {
    crate::shim::init_shim();
    pin_reference(key(0).as_ref());
    let n = 4usize;
    let peers: Vec<PeerId> = (1..=n as u8).map(peer).collect();
    let target = NetworkAddress::from_record_key(&key(0));
    let addrs: Vec<(PeerId, Vec<crate::shim::libp2p::Multiaddr>)> = peers.iter().map(|p| (*p, vec![])).collect();
    let mode = choice(3);
    let tag = [0xEEu8; 32];
    let r = SymU::<256>::fresh("range");
    crate::shim::register_be_bytes(tag, r);
    let k = 1 + choice(4);
    let (num, range) = match mode {
        0 => (None, Some(tag)),
        1 => (Some(k), None),
        _ => (Some(k), Some(tag)),
    };
    note(format!("mode={mode} k={k}"));
    let out = Node::calculate_get_closest_peers(addrs, target.clone(), num, range);
    let got: Vec<NetworkAddress> = out.into_iter().map(|(a, _)| a).collect();
    if range.is_some() {
        cover("range_filter");
        for p in &peers {
            let a = NetworkAddress::from_peer(*p);
            let inside = d_between(&target, *p).sle(r);
            let returned = got.contains(&a);
            check("calc_closest:range_filter_is_exactly_le_range", inside.iff(SymBool::konst(returned)).0);
        }
    } else {
        cover("k_nearest");
        check_bool("calc_closest:returns_requested_count", got.len() == k.min(n));
        for wdw in got.windows(2) {
            check("calc_closest:ascending_distance", target.distance(&wdw[0]).0.sle(target.distance(&wdw[1]).0).0);
        }
        for p in &peers {
            let a = NetworkAddress::from_peer(*p);
            if !got.contains(&a) {
                for q in &got {
                    check("calc_closest:returned_are_the_nearest", target.distance(q).0.sle(target.distance(&a).0).0);
                }
            }
        }
    }
}
