//! Harnesses over the transplanted replication_fetcher.rs (child module).
use super::*;
use crate::util::*;

pub fn harnesses() -> Vec<Harness> {
    vec![]
}
