//! Harnesses over the transplanted replication_fetcher.rs (child module: private fields visible).
use super::*;
use crate::shim::{advance_clock, set_clock_frozen};
use crate::util::*;
use symrt::env;
use symrt::{assume, check, check_bool, choice, cover, note, SymBool, SymU};
use xor_name::XorName;

pub fn harnesses() -> Vec<Harness> {
    vec![
        Harness { name: "c08_add_multi", property: "C08", f: c08_add_multi, about: "multi-key advertisement onto an arbitrary small fetcher state: held/in-range/farthest filters, no duplicate fetch, parallel limit, closest first" },
        Harness { name: "c08_add_single", property: "C08", f: c08_add_single, about: "single-key advertisement (fast path): scheduled iff not held, not already being fetched, not beyond the farthest acceptable distance" },
        Harness { name: "c08_expiry", property: "C08", f: c08_expiry, about: "timer expiry: expired fetches leave the in-flight set, their holders are reported, the holders' queued entries are dropped" },
        Harness { name: "c08_complete", property: "C08", f: c08_complete, about: "arrival / early completion removes the in-flight entry (and only what it should)" },
        Harness { name: "c08_batch_dedupe", property: "C08", f: c08_batch_dedupe, about: "batch scheduling with the same record version queued by two holders: at most one fetch per version, limit respected, returned = newly in flight" },
        Harness { name: "c08_farthest", property: "C08", f: c08_farthest, about: "set_farthest_on_full drops everything farther than the new farthest and never widens" },
        Harness { name: "c08_progress", property: "C08", f: c08_progress, about: "bounded liveness: an in-range key advertised every round by a responsive holder is fetched within 2 rounds (4 keys, limit 3)" },
        Harness { name: "c09_range_follows", property: "C09", f: c09_range_follows, about: "the fetcher filters advertisements with the responsible range currently in force, whether it grew or shrank since it was first set" },
        Harness { name: "c08_running_fetch_not_repeated", property: "C08", f: c08_running_fetch_not_repeated, about: "two versions of a key are being fetched; one arrives and is stored; the other, still running, is advertised again: it is not requested a second time" },
        Harness { name: "c09_two_versions_both_fetched", property: "C09", f: c09_two_versions_both_fetched, about: "two neighbours advertise different versions of a key that is not held while the fetcher is saturated; as slots free up one at a time each neighbour is asked for its version" },
        Harness { name: "c09_divergent_version", property: "C09", f: c09_divergent_version, about: "a key held locally with version T1 and advertised with version T2 != T1 is scheduled or queued" },
    ]
}

fn types() -> Vec<RecordType> {
    vec![RecordType::Chunk, RecordType::NonChunk(XorName([1; 32])), RecordType::NonChunk(XorName([2; 32]))]
}
fn tname(t: &RecordType) -> &'static str {
    match t {
        RecordType::Chunk => "Chunk",
        RecordType::Scratchpad => "Scratchpad",
        RecordType::NonChunk(x) if x.0[0] == 1 => "NonChunk(h1)",
        RecordType::NonChunk(_) => "NonChunk(h2)",
    }
}

struct Fx {
    f: ReplicationFetcher,
    ev: crate::shim::tokio::sync::mpsc::Receiver<NetworkEvent>,
    self_addr: NetworkAddress,
}

fn new_fetcher() -> Fx {
    pin_self_reference();
    let (tx, rx) = crate::shim::tokio::sync::mpsc::channel::<NetworkEvent>(100);
    Fx { f: ReplicationFetcher::new(self_peer(), tx), ev: rx, self_addr: NetworkAddress::from_peer(self_peer()) }
}

fn dist(fx: &Fx, k: &RecordKey) -> SymU<256> {
    fx.self_addr.distance(&NetworkAddress::from_record_key(k)).0
}

fn future_deadline(name: &str, now: SymU<64>) -> Instant {
    let d = SymU::<64>::fresh(name);
    assume(now.slt(d).0);
    assume(d.slt(SymU::konst(1u64 << 62)).0);
    Instant(d)
}

fn drain_events(fx: &mut Fx) -> Vec<NetworkEvent> {
    env::run_all_tasks();
    let mut v = vec![];
    while let Some(e) = fx.ev.try_recv() {
        v.push(e);
    }
    v
}

fn og_keys(f: &ReplicationFetcher) -> Vec<(RecordKey, RecordType)> {
    let mut v: Vec<_> = f.on_going_fetches.keys().cloned().collect();
    v.sort_by_key(|(k, t)| (k.to_vec(), tname(t)));
    v
}
/// frame condition: a fetch that is in flight keeps the holder it was requested from and its deadline
/// until it completes or expires (nothing but completion / expiry may touch it)
type OgSnap = Vec<((RecordKey, RecordType), (PeerId, Instant))>;
fn og_snapshot(f: &ReplicationFetcher) -> OgSnap {
    f.on_going_fetches.iter().map(|(k, v)| (k.clone(), v.clone())).collect()
}
fn check_og_frame(tag: &str, before: &OgSnap, f: &ReplicationFetcher) {
    check_og_frame_except(tag, before, f, None)
}
/// `completed`: fetches of this key were legitimately ended by the call (and may have been started again)
fn check_og_frame_except(tag: &str, before: &OgSnap, f: &ReplicationFetcher, completed: Option<&RecordKey>) {
    for (k, (h0, d0)) in before {
        if Some(&k.0) == completed {
            continue;
        }
        if let Some((h1, d1)) = f.on_going_fetches.get(k) {
            check_bool(&format!("{tag}:in_flight_fetch_keeps_its_holder"), h0 == h1);
            check(&format!("{tag}:in_flight_fetch_keeps_its_deadline"), d0.0.seq(d1.0).0);
        }
    }
}
fn pend_keys(f: &ReplicationFetcher) -> Vec<(RecordKey, RecordType, PeerId)> {
    let mut v: Vec<_> = f.to_be_fetched.keys().cloned().collect();
    v.sort_by_key(|(k, t, p)| (k.to_vec(), tname(t), p.to_bytes()));
    v
}

/// optional range / farthest settings, symbolic
fn maybe_limits(fx: &mut Fx) -> (Option<SymU<256>>, Option<SymU<256>>) {
    let range = if choice(2) == 1 {
        let r = SymU::<256>::fresh("range");
        fx.f.distance_range = Some(U256(r));
        Some(r)
    } else {
        None
    };
    let farthest = if choice(2) == 1 {
        let d = SymU::<256>::fresh("farthest_acceptable");
        fx.f.farthest_acceptable_distance = Some(Distance(d));
        Some(d)
    } else {
        None
    };
    (range, farthest)
}

// ------------------------------------------------------------------ add_keys, batch

fn c08_add_multi() {
    set_clock_frozen(true);
    let mut fx = new_fetcher();
    let now = Instant::now().0;
    let limit = MAX_PARALLEL_FETCH;
    let ty = types();
    // pre-state: n_og on-going fetches of keys 10.. (not among the incoming), deadlines in the future
    let n_og = choice(limit + 1);
    for i in 0..n_og {
        let d = future_deadline(&format!("og_deadline{i}"), now);
        fx.f.on_going_fetches.insert((key(10 + i as u8), RecordType::Chunk), (peer(9), d));
    }
    // optionally one incoming key is already on-going (same or different version), or already pending from this holder
    let holder = peer(1);
    let n_in = 2 + choice(2);
    let incoming: Vec<(RecordKey, RecordType)> = (0..n_in).map(|i| (key(i as u8), if i == 1 { ty[1].clone() } else { ty[0].clone() })).collect();
    let pre = choice(4);
    match pre {
        1 if n_og < limit + 1 => {
            let d = future_deadline("og_same", now);
            fx.f.on_going_fetches.insert((incoming[0].0.clone(), incoming[0].1.clone()), (peer(2), d));
        }
        2 => {
            let d = future_deadline("og_other_version", now);
            fx.f.on_going_fetches.insert((incoming[1].0.clone(), ty[2].clone()), (peer(2), d));
        }
        3 => {
            let d = future_deadline("pending_same", now);
            fx.f.to_be_fetched.insert((incoming[0].0.clone(), incoming[0].1.clone(), holder), d);
        }
        _ => {}
    }
    let (range, farthest) = maybe_limits(&mut fx);
    // invariant of reachable states: set_farthest_on_full drops whatever is farther, and add_keys never
    // admits anything farther, so nothing queued or in flight lies beyond the farthest acceptable distance
    if let Some(fd) = farthest {
        for (k, _) in og_keys(&fx.f) {
            assume(dist(&fx, &k).sle(fd).0);
        }
        for (k, _, _) in pend_keys(&fx.f) {
            assume(dist(&fx, &k).sle(fd).0);
        }
    }
    // local index: nothing, or incoming[0] held with the advertised type
    let mut local: HashMap<RecordKey, (NetworkAddress, RecordType)> = HashMap::new();
    let held0 = choice(2) == 1;
    if held0 {
        local.insert(incoming[0].0.clone(), (NetworkAddress::from_record_key(&incoming[0].0), incoming[0].1.clone()));
    }
    note(format!("n_og={n_og} pre={pre} n_in={n_in} range={} farthest={} held0={held0}", range.is_some(), farthest.is_some()));
    let og_before = og_keys(&fx.f);
    let adv: Vec<(NetworkAddress, RecordType)> = incoming.iter().map(|(k, t)| (NetworkAddress::from_record_key(k), t.clone())).collect();
    let og_snap = og_snapshot(&fx.f);
    let out = fx.f.add_keys(holder, adv, &local);
    check_og_frame("add_multi", &og_snap, &fx.f);
    let og_after = og_keys(&fx.f);
    let new_og: Vec<_> = og_after.iter().filter(|e| !og_before.contains(e)).cloned().collect();
    // D: what is returned are exactly the newly started fetches (nothing already in flight is started again)
    check_bool("add_multi:returned_count_equals_new_in_flight", out.len() == new_og.len());
    for (_h, k) in &out {
        check_bool("add_multi:returned_key_has_new_in_flight_entry", new_og.iter().any(|(kk, _)| kk == k));
    }
    for (k, t) in &new_og {
        if new_og.len() > 0 {
            cover("scheduled_some");
        }
        // A: never a locally held record
        check_bool("add_multi:never_schedules_locally_held", !(local.get(k).map(|(_, lt)| lt == t).unwrap_or(false)));
        // B: entries taken from this multi-key advertisement lie within the responsible range
        // (an entry queued earlier was filtered against the range in force when it was taken)
        let from_this_ad = incoming.iter().any(|(ik, _)| ik == k) && !(pre == 3 && *k == incoming[0].0);
        if let (Some(r), true) = (range, from_this_ad) {
            check("add_multi:scheduled_within_range", dist(&fx, k).sle(r).0);
        }
        // C: nothing farther than the farthest acceptable distance
        if let Some(fd) = farthest {
            if incoming.iter().any(|(ik, _)| ik == k) {
                check("add_multi:scheduled_not_beyond_farthest", dist(&fx, k).sle(fd).0);
            }
        }
    }
    // queued entries obey the same filters
    for (k, t, _h) in pend_keys(&fx.f) {
        if incoming.iter().any(|(ik, _)| *ik == k) && pre != 3 {
            if let Some(r) = range {
                check("add_multi:queued_within_range", dist(&fx, &k).sle(r).0);
            }
            if let Some(fd) = farthest {
                check("add_multi:queued_not_beyond_farthest", dist(&fx, &k).sle(fd).0);
            }
            check_bool("add_multi:never_queues_locally_held", !(local.get(&k).map(|(_, lt)| *lt == t).unwrap_or(false)));
        }
    }
    // E: batch scheduling never lifts the in-flight set above the limit
    // (in-flight entries of records that meanwhile are held locally are dropped first)
    let og_before_live = og_before.iter().filter(|(k, t)| !local.get(k).map(|(_, lt)| lt == t).unwrap_or(false)).count();
    if og_before_live >= limit {
        cover("at_limit");
        check_bool("add_multi:no_batch_scheduling_at_limit", new_og.is_empty());
    }
    check_bool("add_multi:in_flight_le_limit", og_after.len() <= limit.max(og_before.len()));
    // F: closest first -- returned in ascending distance, and no eligible queued entry is closer than a scheduled one
    for w in out.windows(2) {
        check("add_multi:returned_ascending_distance", dist(&fx, &w[0].1).sle(dist(&fx, &w[1].1)).0);
    }
    for (pk, pt, _) in pend_keys(&fx.f) {
        let eligible = !og_after.iter().any(|(k, t)| *k == pk && *t == pt);
        if eligible && og_after.len() < limit {
            check_bool("add_multi:eligible_entry_left_queued_below_limit", false);
        }
        if eligible {
            for (k, _t) in &new_og {
                cover("queued_and_scheduled");
                check("add_multi:scheduled_not_farther_than_queued", dist(&fx, k).sle(dist(&fx, &pk)).0);
            }
        }
    }
    // an in-range, not held, not yet in-flight key is scheduled or queued
    for (k, t) in &incoming {
        let is_held = local.contains_key(k);
        let in_flight_before = og_before.iter().any(|(kk, tt)| kk == k && tt == t);
        let mut wanted = SymBool::konst(!is_held);
        if let Some(r) = range {
            wanted = wanted.and(dist(&fx, k).sle(r));
        }
        if let Some(fd) = farthest {
            wanted = wanted.and(dist(&fx, k).sle(fd));
        }
        let taken = og_after.iter().any(|(kk, tt)| kk == k && tt == t) || fx.f.to_be_fetched.keys().any(|(kk, tt, _)| kk == k && tt == t);
        if !in_flight_before {
            check("add_multi:wanted_key_is_scheduled_or_queued", wanted.implies(SymBool::konst(taken)).0);
        }
    }
}

// ------------------------------------------------------------------ add_keys, single key

fn c08_add_single() {
    set_clock_frozen(true);
    let mut fx = new_fetcher();
    let now = Instant::now().0;
    let limit = MAX_PARALLEL_FETCH;
    let ty = types();
    let n_og = choice(limit + 1);
    for i in 0..n_og {
        let d = future_deadline(&format!("og_deadline{i}"), now);
        fx.f.on_going_fetches.insert((key(10 + i as u8), RecordType::Chunk), (peer(9), d));
    }
    let k = key(0);
    let t = ty[1].clone();
    let pre = choice(3);
    match pre {
        1 => {
            let d = future_deadline("og_same", now);
            fx.f.on_going_fetches.insert((k.clone(), t.clone()), (peer(2), d));
        }
        2 => {
            let d = future_deadline("og_other_version", now);
            fx.f.on_going_fetches.insert((k.clone(), ty[2].clone()), (peer(2), d));
        }
        _ => {}
    }
    let (range, farthest) = maybe_limits(&mut fx);
    let mut local: HashMap<RecordKey, (NetworkAddress, RecordType)> = HashMap::new();
    let held = choice(2) == 1;
    if held {
        local.insert(k.clone(), (NetworkAddress::from_record_key(&k), t.clone()));
    }
    note(format!("n_og={n_og} pre={pre} range={} farthest={} held={held}", range.is_some(), farthest.is_some()));
    let og_before = og_keys(&fx.f);
    let og_snap = og_snapshot(&fx.f);
    let out = fx.f.add_keys(peer(1), vec![(NetworkAddress::from_record_key(&k), t.clone())], &local);
    check_og_frame("add_single", &og_snap, &fx.f);
    let og_after = og_keys(&fx.f);
    let started = out.iter().any(|(_, kk)| *kk == k);
    let in_flight_before = og_before.iter().any(|(kk, tt)| *kk == k && *tt == t);
    if started {
        cover("single_started");
        check_bool("add_single:never_fetches_locally_held", !held);
        check_bool("add_single:never_two_fetches_of_same_version", !in_flight_before);
        if let Some(fd) = farthest {
            check("add_single:not_beyond_farthest", dist(&fx, &k).sle(fd).0);
        }
        check_bool("add_single:in_flight_entry_created", og_after.iter().any(|(kk, tt)| *kk == k && *tt == t));
    } else {
        cover("single_not_started");
        // not started => held, or already in flight, or beyond the farthest acceptable distance
        let mut excuse = SymBool::konst(held || in_flight_before);
        if let Some(fd) = farthest {
            excuse = excuse.or(fd.slt(dist(&fx, &k)));
        }
        check("add_single:new_key_is_fetched_at_once", excuse.0);
    }
    // only the single-key path may exceed the limit, and by at most this one entry
    check_bool("add_single:in_flight_grows_by_at_most_one", og_after.len() <= og_before.len() + 1 || og_after.len() <= limit);
    check_bool("add_single:returned_at_most_new_entries", out.len() == og_after.iter().filter(|e| !og_before.contains(e)).count());
}

// ------------------------------------------------------------------ expiry

fn c08_expiry() {
    set_clock_frozen(true);
    let mut fx = new_fetcher();
    let ty = types();
    let t0 = Instant::now().0;
    // two on-going fetches from holders p1, p2 with arbitrary deadlines; queued entries from p1, p2, p3
    let n_og = 1 + choice(2);
    let mut og = vec![];
    for i in 0..n_og {
        let d = SymU::<64>::fresh(&format!("og_deadline{i}"));
        assume(d.slt(SymU::konst(1u64 << 62)).0);
        let h = peer(1 + i as u8);
        fx.f.on_going_fetches.insert((key(i as u8), ty[0].clone()), (h, Instant(d)));
        og.push((key(i as u8), h, d));
    }
    let n_pend = choice(3);
    let mut pend = vec![];
    for j in 0..n_pend {
        let h = peer(1 + choice(3) as u8);
        let d = future_deadline(&format!("pend_deadline{j}"), t0);
        // pending deadlines stay in the future even after the advance below (PENDING_TIMEOUT is 900 s)
        fx.f.to_be_fetched.insert((key(5 + j as u8), ty[0].clone(), h), d);
        pend.push((key(5 + j as u8), h, d));
    }
    // time passes
    let now = advance_clock();
    for (_, _, d) in &pend {
        assume(now.slt(d.0).0);
    }
    note(format!("n_og={n_og} n_pend={n_pend} pend_holders={:?}", pend.iter().map(|p| p.1.to_bytes()[7]).collect::<Vec<_>>()));
    let out = fx.f.next_keys_to_fetch();
    let events = drain_events(&mut fx);
    let mut reported: Vec<PeerId> = vec![];
    for e in &events {
        if let NetworkEvent::FailedToFetchHolders(hs) = e {
            reported.extend(hs.iter().cloned());
        }
    }
    let mut any_expired = false;
    for (k, h, d) in &og {
        let still = fx.f.on_going_fetches.contains_key(&(k.clone(), ty[0].clone()));
        // expired (deadline strictly before now) => gone and holder reported; not expired => kept, holder not reported for it
        let expired = d.slt(now);
        if still {
            check("expiry:kept_fetch_is_not_expired", expired.not().0);
        } else {
            any_expired = true;
            check("expiry:removed_fetch_is_expired", d.sle(now).0);
            check_bool("expiry:timed_out_holder_is_reported", reported.contains(h));
        }
        if expired.get() {
            cover("some_expired");
            check_bool("expiry:expired_fetch_leaves_in_flight_set", !still);
            check_bool("expiry:timed_out_holder_is_reported", reported.contains(h));
        }
    }
    for h in &reported {
        check_bool("expiry:only_timed_out_holders_reported", og.iter().any(|(k, hh, _)| hh == h && !fx.f.on_going_fetches.contains_key(&(k.clone(), ty[0].clone()))));
    }
    // queued entries of a reported holder are dropped; others are scheduled or stay queued
    for (k, h, _d) in &pend {
        let queued = fx.f.to_be_fetched.contains_key(&(k.clone(), ty[0].clone(), *h));
        let scheduled = out.iter().any(|(hh, kk)| hh == h && kk == k);
        if reported.contains(h) {
            cover("dropped_queue_of_failed_holder");
            check_bool("expiry:queued_entries_of_timed_out_holder_dropped", !queued && !scheduled);
        } else {
            check_bool("expiry:queued_entry_of_live_holder_survives", queued || scheduled);
        }
    }
    if !any_expired {
        cover("none_expired");
        check_bool("expiry:no_report_without_timeout", reported.is_empty());
    }
}

// ------------------------------------------------------------------ completion

fn c08_complete() {
    set_clock_frozen(true);
    let mut fx = new_fetcher();
    let now = Instant::now().0;
    let ty = types();
    // in flight: (k0,T1) (k0,T2) (k1,T1); queued: (k0,T1,p3) (k0,T2,p3) (k2,T0,p3)
    for (i, (k, t)) in [(key(0), ty[1].clone()), (key(0), ty[2].clone()), (key(1), ty[1].clone())].into_iter().enumerate() {
        let d = future_deadline(&format!("og_deadline{i}"), now);
        fx.f.on_going_fetches.insert((k, t), (peer(1), d));
    }
    for (i, (k, t)) in [(key(0), ty[1].clone()), (key(0), ty[2].clone()), (key(2), ty[0].clone())].into_iter().enumerate() {
        let d = future_deadline(&format!("pend_deadline{i}"), now);
        fx.f.to_be_fetched.insert((k, t, peer(3)), d);
    }
    let early = choice(2) == 1;
    let which = choice(2); // complete (k0,T1) or (k1,T1)
    let (ck, ct) = if which == 0 { (key(0), ty[1].clone()) } else { (key(1), ty[1].clone()) };
    note(format!("early={early} completes=({}, {})", key_name(&ck), tname(&ct)));
    let og_before = og_keys(&fx.f);
    let og_snap = og_snapshot(&fx.f);
    let out = if early { fx.f.notify_fetch_early_completed(ck.clone(), ct.clone()) } else { fx.f.notify_about_new_put(ck.clone(), ct.clone()) };
    check_og_frame_except("complete", &og_snap, &fx.f, Some(&ck));
    let og_after = og_keys(&fx.f);
    cover(if early { "early" } else { "arrival" });
    // the completed version leaves the in-flight set and the queue
    check_bool("complete:entry_leaves_in_flight_set", !fx.f.on_going_fetches.contains_key(&(ck.clone(), ct.clone())) || out.iter().any(|(_, k)| *k == ck));
    check_bool("complete:entry_leaves_queue", !fx.f.to_be_fetched.keys().any(|(k, t, _)| *k == ck && *t == ct) );
    // unrelated keys are untouched (still in flight)
    let other = if which == 0 { key(1) } else { key(0) };
    check_bool("complete:other_key_stays_in_flight", og_after.iter().any(|(k, _)| *k == other));
    if early {
        // early completion concerns one version only: the other version of the same key keeps being fetched
        if which == 0 {
            check_bool("complete:early_completion_keeps_other_version", fx.f.on_going_fetches.contains_key(&(key(0), ty[2].clone())));
        }
    }
    // the other version of the completed key that a neighbour advertised is a different record version: it is still
    // wanted (queued, or started right away) -- dropping it would leave the two holders diverged for good, because a
    // key that is held is never queued again
    if which == 0 {
        let t2_queued = fx.f.to_be_fetched.keys().any(|(k, t, _)| *k == key(0) && *t == ty[2]);
        let t2_in_flight = fx.f.on_going_fetches.contains_key(&(key(0), ty[2].clone()));
        check_bool("complete:other_version_of_the_completed_key_is_still_wanted", t2_queued || t2_in_flight);
    }
    // whatever gets scheduled next is new in flight, and the limit is respected by batch scheduling
    for (_h, k) in &out {
        check_bool("complete:returned_key_is_in_flight", og_after.iter().any(|(kk, _)| kk == k));
    }
    check_bool("complete:in_flight_le_limit", og_after.len() <= MAX_PARALLEL_FETCH.max(og_before.len()));
    // the queued entry of an unrelated key is scheduled or still queued
    let k2_queued = fx.f.to_be_fetched.keys().any(|(k, _, _)| *k == key(2));
    let k2_started = og_after.iter().any(|(k, _)| *k == key(2));
    check_bool("complete:unrelated_queued_entry_not_lost", k2_queued || k2_started);
}

// ------------------------------------------------------------------ batch scheduling, duplicates across holders

fn c08_batch_dedupe() {
    set_clock_frozen(true);
    let mut fx = new_fetcher();
    let now = Instant::now().0;
    let limit = MAX_PARALLEL_FETCH;
    let ty = types();
    let n_og = choice(limit + 1);
    for i in 0..n_og {
        let d = future_deadline(&format!("og_deadline{i}"), now);
        fx.f.on_going_fetches.insert((key(10 + i as u8), RecordType::Chunk), (peer(9), d));
    }
    // queued: the same version of k0 from two holders, another version of k0, and k1..k2 from one holder
    let n_other = choice(3);
    let mut queued: Vec<(RecordKey, RecordType, PeerId)> = vec![(key(0), ty[1].clone(), peer(1)), (key(0), ty[1].clone(), peer(2))];
    if choice(2) == 1 {
        queued.push((key(0), ty[2].clone(), peer(1)));
    }
    for j in 0..n_other {
        queued.push((key(1 + j as u8), ty[0].clone(), peer(1)));
    }
    for (i, (k, t, h)) in queued.iter().enumerate() {
        let d = future_deadline(&format!("pend_deadline{i}"), now);
        fx.f.to_be_fetched.insert((k.clone(), t.clone(), *h), d);
    }
    note(format!("n_og={n_og} queued={}", queued.len()));
    let og_before = og_keys(&fx.f);
    let og_snap = og_snapshot(&fx.f);
    let out = fx.f.next_keys_to_fetch();
    check_og_frame("dedupe", &og_snap, &fx.f);
    let og_after = og_keys(&fx.f);
    let new_og: Vec<_> = og_after.iter().filter(|e| !og_before.contains(e)).cloned().collect();
    cover("ran");
    if !out.is_empty() {
        cover("scheduled_some");
    }
    // every started fetch is a distinct record version: what is returned is exactly what is newly in flight
    check_bool("dedupe:returned_count_equals_new_in_flight", out.len() == new_og.len());
    // never two fetches of the same record version at once (two holders of (k0, T1))
    let k0_t1_fetches = out.iter().filter(|(h, k)| *k == key(0) && queued.iter().any(|(qk, qt, qh)| qk == k && *qt == ty[1] && qh == h)).count();
    let k0_versions_started = new_og.iter().filter(|(k, _)| *k == key(0)).count();
    check_bool("dedupe:one_fetch_per_record_version", out.iter().filter(|(_, k)| *k == key(0)).count() <= k0_versions_started.max(0) && k0_t1_fetches <= 2);
    check_bool("dedupe:no_two_holders_for_same_version", {
        // count returned entries per key; it may not exceed the number of distinct versions newly in flight for that key
        let mut ok = true;
        for (k, _) in new_og.iter() {
            let returned = out.iter().filter(|(_, kk)| kk == k).count();
            let versions = new_og.iter().filter(|(kk, _)| kk == k).count();
            if returned > versions {
                ok = false;
            }
        }
        ok
    });
    check_bool("dedupe:in_flight_le_limit", og_after.len() <= limit.max(og_before.len()));
    if og_before.len() >= limit {
        check_bool("dedupe:nothing_started_at_limit", out.is_empty());
    }
    // whatever was started left the queue; whatever was not started and is not in flight stays queued
    for (k, t, h) in queued.iter() {
        let in_flight = og_after.iter().any(|(kk, tt)| kk == k && tt == t);
        let still_queued = fx.f.to_be_fetched.contains_key(&(k.clone(), t.clone(), *h));
        check_bool("dedupe:queued_entry_not_lost", in_flight || still_queued);
    }
}

// ------------------------------------------------------------------ farthest on full

fn c08_farthest() {
    set_clock_frozen(true);
    let mut fx = new_fetcher();
    let now = Instant::now().0;
    let ty = types();
    let had_old = choice(2) == 1;
    let old = SymU::<256>::fresh("old_farthest");
    if had_old {
        fx.f.farthest_acceptable_distance = Some(Distance(old));
    }
    let d1 = future_deadline("og_deadline", now);
    fx.f.on_going_fetches.insert((key(0), ty[0].clone()), (peer(1), d1));
    let d2 = future_deadline("pend_deadline", now);
    fx.f.to_be_fetched.insert((key(1), ty[0].clone(), peer(1)), d2);
    let fk = key(2);
    let new_d = dist(&fx, &fk);
    note(format!("had_old={had_old}"));
    fx.f.set_farthest_on_full(Some(fk.clone()));
    let cur = fx.f.farthest_acceptable_distance.expect("set").0;
    if had_old {
        check("farthest:never_widens", cur.sle(old).0);
        check("farthest:is_min_of_old_and_new", cur.seq(SymU::select(new_d.slt(old), new_d, old)).0);
    } else {
        check("farthest:set_to_new", cur.seq(new_d).0);
    }
    for (k, still) in [(key(0), fx.f.on_going_fetches.contains_key(&(key(0), ty[0].clone()))), (key(1), fx.f.to_be_fetched.contains_key(&(key(1), ty[0].clone(), peer(1))))] {
        let d = dist(&fx, &k);
        if still {
            cover("kept");
            // kept => not farther than the farthest now in force (when the setting changed)
            if !had_old || new_d.slt(old).get() {
                check("farthest:kept_entry_not_beyond_farthest", d.sle(cur).0);
            }
        } else {
            cover("dropped");
            check("farthest:dropped_entry_is_beyond_farthest", cur.slt(d).0);
        }
    }
}

// ------------------------------------------------------------------ bounded progress

fn c08_progress() {
    set_clock_frozen(true);
    let mut fx = new_fetcher();
    let ty = types();
    let _ = Instant::now();
    let holder = peer(1);
    let n = MAX_PARALLEL_FETCH + 1;
    let keys: Vec<RecordKey> = (0..n).map(|i| key(i as u8)).collect();
    let mut local: HashMap<RecordKey, (NetworkAddress, RecordType)> = HashMap::new();
    let has_range = choice(2) == 1;
    let range = SymU::<256>::fresh("range");
    if has_range {
        fx.f.distance_range = Some(U256(range));
        // the key whose progress is claimed is in range
        assume(dist(&fx, &keys[0]).sle(range).0);
    }
    let target = keys[0].clone();
    let mut fetched_target = false;
    for round in 0..2 {
        // the holder advertises everything it has that we do not hold yet
        let adv: Vec<(NetworkAddress, RecordType)> = keys.iter().filter(|k| !local.contains_key(*k)).map(|k| (NetworkAddress::from_record_key(k), ty[0].clone())).collect();
        if adv.len() < 2 {
            break;
        }
        let out = fx.f.add_keys(holder, adv, &local);
        note(format!("round {round}: scheduled {:?}", out.iter().map(|(_, k)| key_name(k)).collect::<Vec<_>>()));
        let mut batch = out;
        // responsive holder: every started fetch completes before its timeout; completions may start further fetches
        let mut guard = 0;
        while let Some((_h, k)) = batch.pop() {
            guard += 1;
            assert!(guard < 20);
            if k == target {
                fetched_target = true;
            }
            // a little time passes, less than the fetch timeout
            let before = Instant::now().0;
            let t = advance_clock();
            assume(t.slt(before.wrapping_add(SymU::konst(FETCH_TIMEOUT.as_nanos() as u64))).0);
            local.insert(k.clone(), (NetworkAddress::from_record_key(&k), ty[0].clone()));
            let more = fx.f.notify_about_new_put(k.clone(), ty[0].clone());
            batch.extend(more);
        }
        if fetched_target {
            break;
        }
    }
    cover("done");
    check_bool("progress:in_range_advertised_key_fetched_within_2_rounds", fetched_target);
}

// ------------------------------------------------------------------ C09 (c)

fn c08_running_fetch_not_repeated() {
    set_clock_frozen(true);
    let mut fx = new_fetcher();
    let _ = Instant::now();
    let ty = types();
    let k = key(0);
    let mut local: HashMap<RecordKey, (NetworkAddress, RecordType)> = HashMap::new();
    let single = choice(2) == 1;
    let adv = |t: &RecordType, extra: u8| {
        let mut v = vec![(NetworkAddress::from_record_key(&key(0)), t.clone())];
        if !single {
            v.push((NetworkAddress::from_record_key(&key(extra)), RecordType::Chunk));
        }
        v
    };
    // every request the fetcher hands out, in order (the clock stands still: nothing times out)
    let mut requests: Vec<(PeerId, RecordKey)> = vec![];
    // neighbour A advertises version T1 of k, neighbour B version T2
    requests.extend(fx.f.add_keys(peer(1), adv(&ty[1], 1), &local));
    requests.extend(fx.f.add_keys(peer(2), adv(&ty[2], 2), &local));
    let t1_requested = requests.iter().any(|(p, kk)| *p == peer(1) && *kk == k);
    if !t1_requested {
        // the slot went to the other key of A's list: not the situation of interest
        symrt::prune();
    }
    // version T1 arrives and is stored; a freed slot may go to what is queued (possibly T2 from B)
    requests.extend(fx.f.notify_about_new_put(k.clone(), ty[1].clone()));
    local.insert(k.clone(), (NetworkAddress::from_record_key(&k), ty[1].clone()));
    let t2_before = requests.iter().filter(|(p, kk)| *p == peer(2) && *kk == k).count();
    // B's periodic replication advertises T2 again while B's answer to the first request is still on its way
    requests.extend(fx.f.add_keys(peer(2), adv(&ty[2], 2), &local));
    let t2_after = requests.iter().filter(|(p, kk)| *p == peer(2) && *kk == k).count();
    note(format!("single_key_lists={single} requests for T2 before/after the second advertisement: {t2_before}/{t2_after}"));
    cover("readvertised");
    if t2_before == 1 { cover("t2_was_running"); }
    // T2 has neither arrived nor timed out: it is requested at most once
    check_bool("running:version_being_fetched_is_not_requested_again", t2_after <= 1);
}

fn c09_two_versions_both_fetched() {
    set_clock_frozen(true);
    let mut fx = new_fetcher();
    let now = Instant::now().0;
    let limit = MAX_PARALLEL_FETCH;
    let ty = types();
    // saturated: `limit` fetches of unrelated keys in flight, none of them about to expire
    for i in 0..limit {
        let d = future_deadline(&format!("og_deadline{i}"), now);
        fx.f.on_going_fetches.insert((key(10 + i as u8), RecordType::Chunk), (peer(9), d));
    }
    let k = key(0);
    let local: HashMap<RecordKey, (NetworkAddress, RecordType)> = HashMap::new();
    // neighbour A holds version T1 of k, neighbour B version T2 (and both a common chunk); either may come first
    let a_first = choice(2) == 0;
    let lists = [(peer(1), ty[1].clone()), (peer(2), ty[2].clone())];
    let order: Vec<usize> = if a_first { vec![0, 1] } else { vec![1, 0] };
    let mut asked: Vec<(PeerId, RecordKey)> = vec![];
    for i in order {
        let (h, t) = lists[i].clone();
        let adv = vec![(NetworkAddress::from_record_key(&k), t), (NetworkAddress::from_record_key(&key(1)), ty[0].clone())];
        asked.extend(fx.f.add_keys(h, adv, &local));
    }
    check_bool("two_versions:nothing_started_while_saturated", asked.is_empty());
    // slots free up one at a time: an unrelated fetch completes, the fetcher hands out what comes next
    let rounds = limit.min(3);
    for i in 0..rounds {
        asked.extend(fx.f.notify_about_new_put(key(10 + i as u8), RecordType::Chunk));
    }
    note(format!("a_first={a_first} rounds={rounds} asked={:?}", asked.iter().map(|(p, kk)| (p.to_bytes()[7], key_name(kk))).collect::<Vec<_>>()));
    cover("ran");
    let a_asked = asked.iter().any(|(p, kk)| *p == peer(1) && *kk == k);
    let b_asked = asked.iter().any(|(p, kk)| *p == peer(2) && *kk == k);
    // both versions are needed for the merge: each neighbour is asked for the version it advertised
    check_bool("two_versions:each_advertised_version_is_requested_from_its_holder", a_asked && b_asked);
    check_bool("two_versions:common_chunk_requested_once", asked.iter().filter(|(_, kk)| *kk == key(1)).count() == 1);
}

fn c09_divergent_version() {
    set_clock_frozen(true);
    let mut fx = new_fetcher();
    let _ = Instant::now();
    let ty = types();
    let k = key(0);
    let held_t = ty[1].clone();
    let adv_t = ty[2].clone();
    let mut local: HashMap<RecordKey, (NetworkAddress, RecordType)> = HashMap::new();
    local.insert(k.clone(), (NetworkAddress::from_record_key(&k), held_t.clone()));
    let multi = choice(2) == 1;
    let mut adv = vec![(NetworkAddress::from_record_key(&k), adv_t.clone())];
    if multi {
        adv.push((NetworkAddress::from_record_key(&key(1)), ty[0].clone()));
    }
    note(format!("held {} as {}, advertised as {} (multi={multi})", key_name(&k), tname(&held_t), tname(&adv_t)));
    let out = fx.f.add_keys(peer(1), adv, &local);
    let taken = out.iter().any(|(_, kk)| *kk == k) || fx.f.to_be_fetched.keys().any(|(kk, tt, _)| *kk == k && *tt == adv_t) || fx.f.on_going_fetches.contains_key(&(k.clone(), adv_t.clone()));
    cover("ran");
    check_bool("divergent:advertised_other_version_of_held_key_is_scheduled_or_queued[held_key_skipped_regardless_of_version]", taken);
}

impl ReplicationFetcher {
    /// harness accessor: nothing queued and nothing in flight
    pub(crate) fn harness_is_idle(&self) -> bool {
        self.to_be_fetched.is_empty() && self.on_going_fetches.is_empty()
    }
}

fn c09_range_follows() {
    set_clock_frozen(true);
    let mut fx = new_fetcher();
    let _ = Instant::now();
    let ty = types();
    // the responsible range is set, then set again (wider or narrower: the solver's call)
    let r1 = SymU::<256>::fresh("first_range");
    let r2 = SymU::<256>::fresh("current_range");
    fx.f.set_replication_distance_range(U256(r1));
    fx.f.set_replication_distance_range(U256(r2));
    let adv: Vec<(NetworkAddress, RecordType)> = vec![(NetworkAddress::from_record_key(&key(0)), ty[0].clone()), (NetworkAddress::from_record_key(&key(1)), ty[0].clone())];
    let local: HashMap<RecordKey, (NetworkAddress, RecordType)> = HashMap::new();
    let out = fx.f.add_keys(peer(1), adv, &local);
    cover("ran");
    for k in [key(0), key(1)] {
        let taken = out.iter().any(|(_, kk)| *kk == k) || fx.f.to_be_fetched.keys().any(|(kk, _, _)| *kk == k) || fx.f.on_going_fetches.keys().any(|(kk, _)| *kk == k);
        let in_range = dist(&fx, &k).sle(r2);
        check("range_follows:record_within_current_range_is_taken", in_range.implies(SymBool::konst(taken)).0);
        check("range_follows:record_beyond_current_range_is_not_taken", SymBool::konst(taken).implies(in_range).0);
    }
}
