//! Harnesses over the transplanted record_store.rs (child module: private fields visible).
use super::*;
use crate::util::*;
use symrt::env;
use symrt::{check, check_bool, choice, cover, note, SymBool, SymU};

pub fn harnesses() -> Vec<Harness> {
    vec![
        Harness { name: "c10_put_step", property: "C10", f: c10_put_step, about: "store of capacity c holding n<=c settled keys; one validated put of a new or held key; acceptance/eviction/refusal exact; index views agree" },
        Harness { name: "c10_burst", property: "C10", f: c10_burst, about: "full store, two validated puts before any completion notification; held <= capacity + writes in flight at every stage" },
        Harness { name: "c10_cleanup", property: "C10", f: c10_cleanup, about: "clean-up below / at the MAX_RECORDS_COUNT/10 threshold with a symbolic responsible range; only out-of-range records removed" },
        Harness { name: "c10_metrics", property: "C10", f: c10_metrics, about: "quoting metrics equal ghost values (records within range, capacity, payments) and survive a restart" },
        Harness { name: "c04_unverified_put", property: "C04", f: c04_unverified_put, about: "RecordStore::put (records arriving from the network): never readable before validation, oversized or unparseable ones refused, only forwarded for validation" },
        Harness { name: "c01_history", property: "C01", f: c01_history, about: "histories of put/overwrite/remove/get with arbitrary completion order of background tasks of different keys" },
        Harness { name: "c01_sizes", property: "C01", f: c01_sizes, about: "two writes of one key with sizes from {tiny, a full 1 MiB chunk, the largest accepted value}: reads return the last accepted write at every stage, whatever its size" },
        Harness { name: "c02_crash", property: "C02", f: c02_crash, about: "history, then crash with a subset of tasks run and one torn write (every prefix), then restart over the same directory" },
    ]
}

fn dist_of(store: &NodeRecordStore, k: &Key) -> SymU<256> {
    store.local_address.distance(&NetworkAddress::from_record_key(k)).0
}

/// J: the three views (records, records_by_distance, farthest_record) describe the same set
fn check_views_agree(store: &NodeRecordStore, tag: &str) {
    check_bool(&format!("{tag}/J:index_sizes_equal"), store.records.len() == store.records_by_distance.len());
    for (d, k) in store.records_by_distance.iter() {
        check_bool(&format!("{tag}/J:by_distance_key_is_held"), store.records.contains_key(k));
        check(&format!("{tag}/J:by_distance_value_is_distance"), d.0.seq(dist_of(store, k)).0);
    }
    match &store.farthest_record {
        None => {
            check_bool(&format!("{tag}/J:farthest_none_iff_empty"), store.records.is_empty());
        }
        Some((fk, fd)) => {
            check_bool(&format!("{tag}/J:farthest_is_held"), store.records.contains_key(fk));
            check(&format!("{tag}/J:farthest_distance_is_its_distance"), fd.0.seq(dist_of(store, fk)).0);
            for k in store.records.keys() {
                check(&format!("{tag}/J:farthest_is_max"), dist_of(store, k).sle(fd.0).0);
            }
        }
    }
}

fn held_set(store: &NodeRecordStore) -> Vec<Key> {
    let mut v: Vec<Key> = store.records.keys().cloned().collect();
    v.sort_by_key(|k| k.to_vec());
    v
}

fn file_of(k: &Key) -> std::path::PathBuf {
    storage_dir().join(NodeRecordStore::generate_filename(k))
}

// ------------------------------------------------------------------ C10

fn c10_put_step() {
    pin_self_reference();
    let cap = 1 + choice(env_usize("C10_MAXCAP", 3));
    let n_held = choice(cap + 1);
    let mut w = World::new(cap, 4);
    w.settle();
    for i in 0..n_held {
        let r = chunk_record(&key(i as u8), 0);
        let _ = w.driver.arm_put_local_record(r);
        w.settle();
    }
    let store = w.driver.node_store();
    check_bool("setup:all_held", store.records.len() == n_held);
    check_views_agree(store, "pre");
    let before = held_set(store);
    let farthest_before = store.farthest_record.clone();
    // the incoming key: a new one, or one already held
    let incoming_is_new = n_held == 0 || choice(2) == 0;
    let k_in = if incoming_is_new { key(n_held as u8) } else { key(choice(n_held) as u8) };
    let d_in = dist_of(store, &k_in);
    note(format!("cap={cap} held={n_held} incoming={} new={incoming_is_new}", key_name(&k_in)));
    let res = w.driver.arm_put_local_record(chunk_record(&k_in, 1));
    let in_flight = w.in_flight();
    let store = w.driver.node_store();
    let after_now = held_set(store);
    if n_held < cap {
        cover("below_capacity");
        check_bool("below_capacity:accepted", res.is_ok());
        check_bool("below_capacity:nothing_evicted", after_now == before);
    } else if incoming_is_new {
        let (fk, fd) = farthest_before.clone().expect("full store has a farthest");
        if res.is_ok() {
            cover("at_capacity_accept");
            // accepted => closer than the farthest, and exactly the farthest was evicted
            check("at_capacity:accepted_only_if_closer_than_farthest", d_in.slt(fd.0).0);
            let mut expect = before.clone();
            expect.retain(|k| *k != fk);
            check_bool("at_capacity:exactly_farthest_evicted", after_now == expect);
        } else {
            cover("at_capacity_refuse");
            check("at_capacity:refused_only_if_farther_than_farthest", fd.0.slt(d_in).0);
            check_bool("at_capacity:refusal_leaves_set_unchanged", after_now == before);
            check_bool("at_capacity:refusal_starts_no_write", in_flight == 0);
        }
    }
    check_views_agree(store, "mid");
    if n_held >= cap && incoming_is_new && res.is_err() {
        // a refused record is not held: it must not be readable, and offering the very same bytes again is
        // refused again (it must not be answered "already have it" without anything having been stored)
        let got = w.driver.store().get(&k_in).map(|c| c.into_owned().value);
        check_bool("at_capacity:refused_record_is_not_readable", got.is_none());
        let res1 = w.driver.arm_put_local_record(chunk_record(&k_in, 1));
        cover("reoffered_same_bytes_after_refusal");
        check_bool("at_capacity:reoffer_of_refused_bytes_is_refused_again", res1.is_err());
        check_bool("at_capacity:reoffer_of_refused_bytes_leaves_set_unchanged", held_set(w.driver.node_store()) == before);
        check_bool("at_capacity:reoffer_of_refused_bytes_starts_no_write", w.in_flight() == 0);
        // the refused record is offered again with other content (a newer version of it): it is still farther
        // than everything held, so it is refused again and nothing changes
        let res2 = w.driver.arm_put_local_record(chunk_record(&k_in, 2));
        cover("reoffered_after_refusal");
        check_bool("at_capacity:reoffer_of_refused_key_is_refused_again", res2.is_err());
        check_bool("at_capacity:reoffer_leaves_set_unchanged", held_set(w.driver.node_store()) == before);
        check_bool("at_capacity:reoffer_starts_no_write", w.in_flight() == 0);
    }
    w.settle();
    let store = w.driver.node_store();
    check_views_agree(store, "post");
    check_bool("post:held_le_capacity", store.records.len() <= cap);
    if res.is_ok() {
        check_bool("post:accepted_key_is_held", store.records.contains_key(&k_in));
    }
}

fn c10_burst() {
    pin_self_reference();
    let cap = 1 + choice(env_usize("C10_MAXCAP", 3) - 1);
    let mut w = World::new(cap, 4);
    w.settle();
    for i in 0..cap {
        let _ = w.driver.arm_put_local_record(chunk_record(&key(i as u8), 0));
        w.settle();
    }
    check_bool("setup:full", w.driver.node_store().records.len() == cap);
    // two validated writes arrive before any completion notification is processed
    let n_burst = env_usize("C10_BURST", 2);
    let mut accepted = 0usize;
    for j in 0..n_burst {
        let k = key((cap + j) as u8);
        let r = w.driver.arm_put_local_record(chunk_record(&k, 1));
        if r.is_ok() {
            accepted += 1;
        }
        let inflight = accepted;
        let held = w.driver.node_store().records.len();
        note(format!("cap={cap} after put #{j}: held={held} writes_in_flight={inflight} ok={}", r.is_ok()));
        check_bool("burst:held_le_capacity_plus_inflight", held <= cap + inflight);
    }
    if accepted >= 2 {
        cover("both_accepted");
    }
    let burst_accepted = accepted;
    // completions are processed one by one
    loop {
        env::run_all_tasks();
        let Some(cmd) = w.cmd_rx.try_recv() else { break };
        w.dispatch(cmd);
        accepted -= 1;
        let inflight = accepted;
        let held = w.driver.node_store().records.len();
        note(format!("after a completion notification: held={held} writes_in_flight={inflight}"));
        if burst_accepted >= 2 && held > cap + inflight && held <= cap + inflight + (burst_accepted - 1) {
            // k unacknowledged writes were admitted against an index that only the first one shrank:
            // the overshoot is at most k-1 (anything larger is a different failure and keeps the plain name)
            check_bool("burst:held_le_capacity_plus_inflight[k_unacknowledged_puts_overshoot_by_at_most_k_minus_one]", false);
        } else {
            check_bool("burst:held_le_capacity_plus_inflight", held <= cap + inflight);
        }
    }
    let store = w.driver.node_store();
    check_views_agree(store, "post");
}

fn c10_cleanup() {
    // threshold is a const of the transplanted file
    let threshold = MAX_RECORDS_COUNT / 10;
    let below = choice(2) == 0;
    let n_sym = 2usize;
    let total = if below { threshold - 1 } else { threshold };
    let n_fill = total - n_sym;
    // fillers live in a narrow band of concrete distances; H[self] = 0 so distance == H[key]
    let self_addr = NetworkAddress::from_peer(self_peer());
    env::set_hash(&self_addr.bytes, SymU::konst(0));
    let band_lo = ruint_pow2(200);
    let mut w = World::new(MAX_RECORDS_COUNT, 4);
    w.settle();
    let mut filler_keys = Vec::with_capacity(n_fill);
    for i in 0..n_fill {
        let mut kb = [0xF0u8; 32];
        kb[0] = (i >> 8) as u8;
        kb[1] = (i & 0xff) as u8;
        let k = Key::new(&kb);
        env::set_hash(k.as_ref(), SymU::konst_u256(band_lo + ruint::aliases::U256::from(i as u64 + 1)));
        filler_keys.push(k);
    }
    let band_hi = SymU::<256>::konst_u256(band_lo + ruint::aliases::U256::from(n_fill as u64 + 2));
    let band_lo_s = SymU::<256>::konst_u256(band_lo);
    // symbolic keys and the responsible range lie outside the band (each side is explored)
    let outside = |x: SymU<256>| x.slt(band_lo_s).or(band_hi.slt(x));
    let store = w.driver.node_store();
    for k in &filler_keys {
        store.mark_as_stored(k.clone(), RecordType::Chunk);
    }
    // the two keys of interest sit below or above the band (by choice); the responsible
    // range is a free 256-bit value outside the band, so every relation range-vs-key is the solver's
    // (they are really written: validated put, disk write, completion -- so they also sit in the record cache)
    let sym_keys: Vec<Key> = (0..n_sym).map(|i| key(i as u8)).collect();
    for (i, k) in sym_keys.iter().enumerate() {
        let high = choice(2) == 1;
        let h = if high { ruint_pow2(201) + ruint::aliases::U256::from(i as u64) } else { ruint::aliases::U256::from(10 + i as u64) };
        env::set_hash(k.as_ref(), SymU::konst_u256(h));
        let _ = w.driver.arm_put_local_record(chunk_record(k, 0));
        w.settle();
    }
    let store = w.driver.node_store();
    let has_range = choice(2) == 1;
    let range = SymU::<256>::fresh("range");
    if has_range {
        symrt::assume(outside(range).0);
        store.set_responsible_distance_range(U256(range));
    }
    check_bool("setup:size", store.records.len() == total);
    let before = held_set(store);
    note(format!("below_threshold={below} has_range={has_range} total={total} threshold={threshold}"));
    w.driver.arm_trigger_irrelevant_record_cleanup().expect("cleanup arm");
    let store = w.driver.node_store();
    let after = held_set(store);
    let removed: Vec<Key> = before.iter().filter(|k| !after.contains(k)).cloned().collect();
    check_bool("cleanup:nothing_added", after.iter().all(|k| before.contains(k)));
    if below || !has_range {
        cover("not_applicable");
        check_bool("cleanup:below_threshold_or_no_range_removes_nothing", removed.is_empty());
    } else {
        cover("applies");
        if !removed.is_empty() {
            cover("removed_some");
        }
        for k in &removed {
            // "outside the responsible distance": boundary accepted either way
            check("cleanup:removed_only_outside_range", range.sle(dist_of(store, k)).0);
        }
    }
    // what clean-up removed is gone for readers too (cache, file), and storing the same bytes again stores them
    let removed_written: Vec<Key> = removed.iter().filter(|k| sym_keys.contains(k)).cloned().collect();
    w.settle(); // the files are deleted by background tasks
    for k in &removed_written {
        cover("removed_a_written_record");
        let got = w.driver.store().get(k).map(|c| c.into_owned().value);
        check_bool("cleanup:removed_record_is_not_readable", got.is_none());
        check_bool("cleanup:removed_record_has_no_file", !env::fs::exists(file_of(k)));
    }
    if let Some(k) = removed_written.first() {
        // (widen the range first, so that the record is wanted again)
        w.driver.node_store().responsible_distance_range = None;
        let r = w.driver.arm_put_local_record(chunk_record(k, 0));
        w.settle();
        check_bool("cleanup:record_stored_again_after_cleanup_is_held", r.is_ok() && w.driver.node_store().records.contains_key(k) && env::fs::exists(file_of(k)));
        let _ = w.driver.store().remove(k);
        w.settle();
    }
    let store = w.driver.node_store();
    // index consistency on the symbolic keys and a few fillers (checking all 1.6k fillers is redundant)
    check_bool("post/J:index_sizes_equal", store.records.len() == store.records_by_distance.len());
    for k in sym_keys.iter().chain(filler_keys.iter().take(3)) {
        if store.records.contains_key(k) {
            let d = dist_of(store, k);
            let hit = store.records_by_distance.iter().any(|(dd, kk)| kk == k && dd.0.seq(d).get());
            check_bool("post/J:held_key_indexed_by_its_distance", hit);
        }
    }
    if let Some((fk, fd)) = &store.farthest_record {
        check_bool("post/J:farthest_is_held", store.records.contains_key(fk));
        for k in sym_keys.iter() {
            if store.records.contains_key(k) {
                check("post/J:farthest_is_max", dist_of(store, k).sle(fd.0).0);
            }
        }
    } else {
        check_bool("post/J:farthest_none_iff_empty", store.records.is_empty());
    }
}

fn ruint_pow2(n: usize) -> ruint::aliases::U256 {
    ruint::aliases::U256::from(1u8) << n
}

fn c10_metrics() {
    pin_self_reference();
    let cap = 2 + choice(2);
    let n_held = choice(3) + 1;
    let n_held = n_held.min(cap);
    let mut w = World::new(cap, 4);
    w.settle();
    for i in 0..n_held {
        let _ = w.driver.arm_put_local_record(chunk_record(&key(i as u8), 0));
        w.settle();
    }
    let payments = choice(3);
    for _ in 0..payments {
        w.driver.arm_payment_received().expect("payment arm");
    }
    let has_range = choice(2) == 1;
    let range = SymU::<256>::fresh("range");
    if has_range {
        w.driver.node_store().set_responsible_distance_range(U256(range));
    }
    // between setting the range and quoting, the store keeps working: an update of a held key, a removal, a new key
    // (a figure cached when the range was set must follow these)
    let after = choice(4);
    match after {
        1 => {
            let _ = w.driver.arm_put_local_record(nonchunk_record(&key(0), 1));
            w.settle();
            let _ = w.driver.arm_put_local_record(nonchunk_record(&key(0), 2));
            w.settle();
            cover("held_key_updated_after_range_was_set");
        }
        2 => {
            w.driver.store().remove(&key(0));
            w.settle();
            cover("held_key_removed_after_range_was_set");
        }
        3 => {
            let _ = w.driver.arm_put_local_record(chunk_record(&key(7), 0));
            w.settle();
            cover("new_key_put_after_range_was_set");
        }
        _ => {}
    }
    let n_held = w.driver.node_store().records.len();
    note(format!("cap={cap} held={n_held} payments={payments} has_range={has_range} after_range={}", ["nothing", "update of key0 twice", "remove key0", "put key7"][after]));
    let probe = key(0);
    let store = w.driver.node_store();
    let (m, is_stored) = store.quoting_metrics(&probe, Some(1000));
    check_bool("metrics:max_records", m.max_records == cap);
    check_bool("metrics:received_payment_count", m.received_payment_count == payments);
    check_bool("metrics:is_stored", is_stored == store.records.contains_key(&probe));
    if has_range {
        cover("with_range");
        // "within the responsible range" is what clean-up keeps: clean-up removes the records at distance >= range
        // (c10_cleanup decides that boundary), so the quoted figure is the number of records at distance < range
        let mut within = 0usize;
        for k in store.records.keys() {
            if dist_of(store, k).slt(range).get() {
                within += 1;
            }
        }
        check_bool("metrics:close_records_stored_is_count_within_range", m.close_records_stored == within);
    } else {
        cover("without_range");
        check_bool("metrics:close_records_stored_is_total", m.close_records_stored == n_held);
    }
    // restart after the background work settled: payments survive
    w.settle();
    let files = env::fs::snapshot();
    drop(w);
    env::fs::restore(files);
    let mut w2 = World::new(cap, 4);
    w2.settle();
    let store2 = w2.driver.node_store();
    let (m2, _) = store2.quoting_metrics(&probe, Some(1000));
    check_bool("restart:received_payment_count_survives", m2.received_payment_count == payments);
    check_bool("restart:max_records", m2.max_records == cap);
    check_bool("restart:records_reloaded", store2.records.len() == n_held);
    check_views_agree(store2, "restart");
}

// ------------------------------------------------------------------ C01 / C02 common

#[derive(Clone, Debug, PartialEq)]
enum Last {
    Never,
    Value(Vec<u8>),
    Removed,
}

struct Ghost {
    accepted: Vec<Vec<Vec<u8>>>, // per key: every value accepted so far
    last: Vec<Last>,
    /// a remove of the key was issued while a write of the same key had not yet been acknowledged
    remove_raced_write: Vec<bool>,
    unacked_writes: Vec<usize>,
}

fn the_record(ki: usize, variant: usize, nonchunk: bool) -> Record {
    let k = key(ki as u8);
    if nonchunk {
        nonchunk_record(&k, variant as u8)
    } else {
        chunk_record(&k, variant as u8)
    }
}

/// constant hashes: distances are not the subject of C01/C02 (capacity is large)
fn pin_hashes(n_keys: usize) {
    let self_addr = NetworkAddress::from_peer(self_peer());
    env::set_hash(&self_addr.bytes, SymU::konst(0));
    for i in 0..n_keys {
        env::set_hash(key(i as u8).as_ref(), SymU::konst(1000 + 7 * i as u64));
    }
}

fn env_usize(name: &str, default: usize) -> usize {
    std::env::var(name).ok().and_then(|v| v.parse().ok()).unwrap_or(default)
}

/// one history step; returns false when the history ends
fn history_step(w: &mut World, g: &mut Ghost, n_keys: usize, tag: &str) {
    let op = choice(3);
    let ki = choice(n_keys);
    let k = key(ki as u8);
    env::set_task_label(&key_name(&k));
    match op {
        0 => {
            let variant = choice(2);
            // key 1 carries a non-chunk kind, the others chunks (C01_NONCHUNK_FIRST=1 swaps that, so that the
            // one-key histories run on a mutable kind as well)
            let nonchunk = (ki == 1) != (std::env::var("C01_NONCHUNK_FIRST").ok().as_deref() == Some("1"));
            let r = the_record(ki, variant, nonchunk);
            let val = r.value.clone();
            let res = w.driver.arm_put_local_record(r);
            note(format!("{tag} put {} v{variant} -> {}", key_name(&k), if res.is_ok() { "ok" } else { "err" }));
            if res.is_ok() {
                g.accepted[ki].push(val.clone());
                g.last[ki] = Last::Value(val);
                g.remove_raced_write[ki] = false;
            }
        }
        1 => {
            let unacked = pending_work_for(w, &key_name(&k));
            note(format!("{tag} remove {} (unacknowledged writes of that key: {unacked})", key_name(&k)));
            w.driver.store().remove(&k);
            g.last[ki] = Last::Removed;
            g.remove_raced_write[ki] = unacked;
        }
        _ => {
            let got = w.driver.store().get(&k).map(|c| c.into_owned().value);
            note(format!("{tag} get {} -> {}", key_name(&k), got.as_ref().map(|v| format!("{} bytes", v.len())).unwrap_or("none".into())));
            if let Some(v) = got {
                cover("get_returned_value");
                check_bool("get:returns_only_accepted_bytes_for_that_key", g.accepted[ki].contains(&v));
            }
        }
    }
    env::set_task_label("");
}

/// run background work in an arbitrary order, FIFO within one key
fn run_some_background(w: &mut World, max_steps: usize) {
    for _ in 0..max_steps {
        // candidates: the oldest pending task of each label, the oldest pending notification of each key
        let tasks = env::pending_tasks();
        let mut cands: Vec<(bool, u64, String)> = vec![];
        for (id, label) in &tasks {
            if !cands.iter().any(|c| c.0 && c.2 == *label) {
                cands.push((true, *id, label.clone()));
            }
        }
        let notif_keys: Vec<String> = w.cmd_rx.with_queue(|q| q.iter().map(cmd_key_name).collect());
        for (i, kn) in notif_keys.iter().enumerate() {
            if !cands.iter().any(|c| !c.0 && c.2 == *kn) {
                cands.push((false, i as u64, kn.clone()));
            }
        }
        if cands.is_empty() {
            return;
        }
        // choice 0 = stop running background work for now
        let c = choice(cands.len() + 1);
        if c == 0 {
            return;
        }
        let (is_task, id, label) = cands[c - 1].clone();
        if is_task {
            env::set_task_label(&label);
            env::run_task(id);
            env::set_task_label("");
        } else {
            let cmd = w.cmd_rx.take_at(id as usize).expect("notification");
            env::set_task_label(&label);
            w.dispatch(cmd);
            env::set_task_label("");
        }
    }
}

/// is there a pending task or notification labelled with this key (a write not yet acknowledged)?
fn pending_work_for(w: &World, kn: &str) -> bool {
    env::pending_tasks().iter().any(|(_, l)| l == kn) || w.cmd_rx.with_queue(|q| q.iter().any(|c| cmd_key_name(c) == kn))
}

fn cmd_key_name(c: &LocalSwarmCmd) -> String {
    match c {
        LocalSwarmCmd::AddLocalRecordAsStored { key, .. } => key_name(key),
        LocalSwarmCmd::RemoveFailedLocalRecord { key } => key_name(key),
        LocalSwarmCmd::PutLocalRecord { record } => key_name(&record.key),
        _ => String::new(),
    }
}

/// settle: everything pending runs; different keys in an arbitrary order is covered by
/// run_some_background before; here FIFO per label, labels in creation order
fn settle_labelled(w: &mut World) {
    loop {
        let tasks = env::pending_tasks();
        if let Some((id, label)) = tasks.first().cloned() {
            env::set_task_label(&label);
            env::run_task(id);
            env::set_task_label("");
            continue;
        }
        let first = w.cmd_rx.with_queue(|q| q.front().map(cmd_key_name));
        match first {
            Some(label) => {
                let cmd = w.cmd_rx.try_recv().unwrap();
                env::set_task_label(&label);
                w.dispatch(cmd);
                env::set_task_label("");
            }
            None => break,
        }
    }
}

// ------------------------------------------------------------------ C01

fn c01_history() {
    let n_keys = env_usize("C01_KEYS", 2);
    let n_ops = env_usize("C01_OPS", 3);
    let cache = 1 + choice(2);
    pin_hashes(n_keys);
    crate::shim::set_clock_frozen(false); // cache timestamps: every now() may be a later instant (or the same)
    let mut w = World::new(100, cache);
    settle_labelled(&mut w);
    let mut g = Ghost { accepted: vec![vec![]; n_keys], last: vec![Last::Never; n_keys], remove_raced_write: vec![false; n_keys], unacked_writes: vec![0; n_keys] };
    note(format!("cache_size={cache}"));
    for i in 0..n_ops {
        history_step(&mut w, &mut g, n_keys, &format!("op{i}:"));
        run_some_background(&mut w, 3);
    }
    settle_labelled(&mut w);
    cover("settled");
    // the store's three views of the held set (index, distance index, farthest record) agree at quiescence:
    // a stale view is what later lets an unrelated put destroy an accepted record
    check_views_agree(w.driver.node_store(), "settled");
    for ki in 0..n_keys {
        let k = key(ki as u8);
        let got = w.driver.store().get(&k).map(|c| c.into_owned().value);
        let held = w.driver.store().contains(&k);
        let listed = w.driver.store().record_addresses().keys().any(|a| a.to_record_key() == k);
        match &g.last[ki] {
            Last::Value(v) => {
                cover("settled_value");
                check_bool("settled:last_accepted_write_is_readable_exactly", got.as_ref() == Some(v));
                check_bool("settled:accepted_key_is_held", held && listed);
                // what is durable must be the last accepted write too (reads after cache eviction / restart)
                let on_disk = {
                    let st = w.driver.node_store();
                    NodeRecordStore::read_from_disk(&st.encryption_details, &k, &st.config.storage_dir).map(|c| c.into_owned().value)
                };
                check_bool("settled:file_holds_last_accepted_write", on_disk.as_ref() == Some(v));
            }
            Last::Removed => {
                cover("settled_removed");
                check_bool("settled:removed_key_not_readable", got.is_none());
                if g.remove_raced_write[ki] {
                    check_bool("settled:removed_key_not_listed[remove_issued_while_write_unacknowledged]", !held && !listed);
                } else {
                    check_bool("settled:removed_key_not_listed", !held && !listed);
                }
                check_bool("settled:removed_key_has_no_file", !env::fs::exists(file_of(&k)));
            }
            Last::Never => {
                check_bool("settled:never_written_key_not_readable", got.is_none() && !held);
            }
        }
    }
}

/// a record of exactly `len` value bytes with a decodable non-chunk header (`variant` varies the payload)
fn sized_record(k: &Key, len: usize, variant: u8) -> Record {
    let head = ant_protocol::storage::try_serialize_record(&vec![variant], ant_protocol::storage::RecordKind::Scratchpad).expect("serialise").to_vec();
    let mut value = head;
    assert!(len >= value.len());
    let fill = len - value.len();
    value.extend((0..fill).map(|i| (i as u8) ^ variant));
    Record { key: k.clone(), value, publisher: None, expires: None }
}

/// Accepted writes are readable exactly as written whatever their size: the sizes that matter are the ends of the
/// accepted range and the size of a full chunk (any size-dependent shortcut in the store sits between them).
fn c01_sizes() {
    pin_hashes(1);
    let mut w = World::new(100, 2);
    settle_labelled(&mut w);
    let max = w.driver.node_store().config.max_value_bytes;
    let sizes = [16usize, 1024 * 1024 + 8, max - 1];
    let k = key(0);
    let (ia, ib) = (choice(3), choice(3));
    let a = sized_record(&k, sizes[ia], 1);
    let b = sized_record(&k, sizes[ib], 2);
    note(format!("first write {} bytes, second write {} bytes (max_value_bytes={max})", sizes[ia], sizes[ib]));
    env::set_task_label(&key_name(&k));
    check_bool("sizes:first_write_accepted", w.driver.arm_put_local_record(a.clone()).is_ok());
    let read = |w: &mut World| w.driver.store().get(&k).map(|c| c.into_owned().value);
    let first = read(&mut w);
    check_bool("sizes:read_after_first_write_returns_it_or_nothing", first.is_none() || first.as_ref() == Some(&a.value));
    let settle_between = choice(2) == 1;
    if settle_between {
        settle_labelled(&mut w);
        check_bool("sizes:read_after_first_write_settled_returns_it", read(&mut w).as_ref() == Some(&a.value));
    }
    env::set_task_label(&key_name(&k));
    check_bool("sizes:second_write_accepted", w.driver.arm_put_local_record(b.clone()).is_ok());
    // before the background work has settled a read may return either accepted write, never anything else
    let got = read(&mut w);
    check_bool("sizes:read_before_settling_returns_an_accepted_write", got.as_ref() == Some(&b.value) || got.as_ref() == Some(&a.value));
    settle_labelled(&mut w);
    cover("settled");
    let got = read(&mut w);
    check_bool("sizes:settled_read_returns_the_last_accepted_write", got.as_ref() == Some(&b.value));
    let on_disk = {
        let st = w.driver.node_store();
        NodeRecordStore::read_from_disk(&st.encryption_details, &k, &st.config.storage_dir).map(|c| c.into_owned().value)
    };
    check_bool("sizes:file_holds_the_last_accepted_write", on_disk.as_ref() == Some(&b.value));
    check_views_agree(w.driver.node_store(), "sizes");
}

// ------------------------------------------------------------------ C02

fn c02_crash() {
    pin_self_reference();
    let n_keys = env_usize("C02_KEYS", 2);
    let n_ops = env_usize("C02_OPS", 2);
    let mut w = World::new(100, 2);
    settle_labelled(&mut w);
    // records right below the maximum accepted size must survive a restart like any other
    let biggest = (0..n_keys).flat_map(|ki| (0..2).map(move |v| the_record(ki, v, ki == 1).value.len())).max().unwrap_or(0);
    w.driver.node_store().config.max_value_bytes = biggest + 1;
    let max_value_bytes = biggest + 1;
    let mut g = Ghost { accepted: vec![vec![]; n_keys], last: vec![Last::Never; n_keys], remove_raced_write: vec![false; n_keys], unacked_writes: vec![0; n_keys] };
    // ghost of what is durably on disk per key: Some(bytes) once a write task completed, None once a delete completed
    let mut durable: Vec<Last> = vec![Last::Never; n_keys];
    let mut ops: Vec<(usize, Last)> = vec![]; // issue order of (key, intended effect)
    for i in 0..n_ops {
        let op = choice(2);
        let ki = choice(n_keys);
        let k = key(ki as u8);
        env::set_task_label(&format!("{}#{}", key_name(&k), ops.len()));
        if op == 0 {
            let variant = choice(2);
            let r = the_record(ki, variant, ki == 1);
            let val = r.value.clone();
            let res = w.driver.arm_put_local_record(r);
            note(format!("op{i}: put {} v{variant} -> {}", key_name(&k), if res.is_ok() { "ok" } else { "err" }));
            if res.is_ok() {
                g.accepted[ki].push(val.clone());
                // an identical re-put is answered from the cache without a new write
                ops.push((ki, Last::Value(val)));
            }
        } else {
            note(format!("op{i}: remove {}", key_name(&k)));
            w.driver.store().remove(&k);
            ops.push((ki, Last::Removed));
        }
        env::set_task_label("");
        // some of the background work may complete before the next operation (FIFO per key)
        run_background_tracking(&mut w, &ops, &mut durable, 2);
    }
    run_background_tracking(&mut w, &ops, &mut durable, 4);
    // crash: optionally one of the still-pending write tasks is torn at an arbitrary prefix
    let tasks = env::pending_tasks();
    let mut torn_key: Option<usize> = None;
    let first_per_key: Vec<(u64, String)> = {
        let mut seen: Vec<String> = vec![];
        let mut v = vec![];
        for (id, label) in tasks.iter() {
            let kn = label.split('#').next().unwrap_or("").to_string();
            if kn.is_empty() || seen.contains(&kn) {
                continue;
            }
            seen.push(kn);
            v.push((*id, label.clone()));
        }
        v
    };
    if !first_per_key.is_empty() && choice(2) == 1 {
        let (id, label) = first_per_key[choice(first_per_key.len())].clone();
        let opi: usize = label.split('#').nth(1).and_then(|s| s.parse().ok()).unwrap_or(usize::MAX);
        if opi < ops.len() {
            if let (ki, Last::Value(_)) = &ops[opi] {
                let path = file_of(&key(*ki as u8));
                let before = env::fs::read(&path).ok();
                env::run_task(id);
                if let Ok(full) = env::fs::read(&path) {
                    if before.as_ref() != Some(&full) && !full.is_empty() {
                        let p = choice(full.len()); // 0 .. len-1 bytes reached the disk
                        env::fs::write(&path, &full[..p]).unwrap();
                        note(format!("crash tears the write of {} at {p}/{} bytes", key_name(&key(*ki as u8)), full.len()));
                        cover("torn_write");
                        torn_key = Some(*ki);
                    }
                }
            }
        }
    }
    // a removal is settled when it was the key's last operation and no background work of that key is pending
    let pending_labels: Vec<String> = env::pending_tasks().iter().map(|(_, l)| l.split('#').next().unwrap_or("").to_string()).collect();
    let mut settled_removal = vec![false; n_keys];
    for ki in 0..n_keys {
        let last = ops.iter().rev().find(|(k, _)| *k == ki).map(|(_, o)| o.clone());
        if last == Some(Last::Removed) && !pending_labels.contains(&key_name(&key(ki as u8))) && torn_key != Some(ki) {
            settled_removal[ki] = true;
        }
    }
    let files = env::fs::snapshot();
    drop(w);
    env::reset_tasks();
    env::fs::restore(files);
    // restart with the same identity (same encryption seed) and the same configuration
    let mut w2 = World::new_with(100, 2, max_value_bytes);
    settle_labelled(&mut w2);
    cover("restarted");
    for ki in 0..n_keys {
        let k = key(ki as u8);
        let got = w2.driver.store().get(&k).map(|c| c.into_owned().value);
        if let Some(v) = &got {
            cover("served_after_restart");
            check_bool("restart:serves_only_previously_validated_bytes", g.accepted[ki].contains(v));
        }
        if settled_removal[ki] {
            cover("settled_removal");
            check_bool("restart:settled_removal_stays_removed", got.is_none());
        }
        if torn_key == Some(ki) {
            continue; // the torn file's key may legitimately be gone
        }
        match &durable[ki] {
            Last::Value(v) => {
                cover("durable_value");
                check_bool("restart:completed_write_is_served", got.as_ref() == Some(v));
            }
            Last::Removed => {
                cover("durable_removed");
                check_bool("restart:completed_removal_stays_removed", got.is_none());
            }
            Last::Never => {}
        }
    }
    let store2 = w2.driver.node_store();
    check_views_agree(store2, "restart");
    // every indexed key must have an authenticating file
    for k in store2.records.keys() {
        check_bool("restart:indexed_key_is_readable", NodeRecordStore::read_from_disk(&store2.encryption_details, k, &store2.config.storage_dir).is_some());
    }
}

/// like run_some_background, additionally tracking which file effects completed (durable state per key)
fn run_background_tracking(w: &mut World, ops: &[(usize, Last)], durable: &mut Vec<Last>, max_steps: usize) {
    for _ in 0..max_steps {
        let tasks = env::pending_tasks();
        let mut cands: Vec<(u64, String)> = vec![];
        for (id, label) in &tasks {
            let kn = label.split('#').next().unwrap_or("").to_string();
            if kn.is_empty() {
                continue;
            }
            if !cands.iter().any(|c| c.1.split('#').next().unwrap_or("") == kn) {
                cands.push((*id, label.clone()));
            }
        }
        if cands.is_empty() {
            return;
        }
        let c = choice(cands.len() + 1);
        if c == 0 {
            return;
        }
        let (id, label) = cands[c - 1].clone();
        let opi: usize = label.split('#').nth(1).and_then(|s| s.parse().ok()).unwrap_or(usize::MAX);
        let ki_opt = ops.get(opi).map(|o| o.0);
        let before = ki_opt.map(|ki| env::fs::read(file_of(&key(ki as u8))).ok());
        env::set_task_label(&label);
        env::run_task(id);
        env::set_task_label("");
        if let (Some(ki), Some(before)) = (ki_opt, before) {
            let after = env::fs::read(file_of(&key(ki as u8))).ok();
            if after != before {
                match (&ops[opi].1, &after) {
                    (Last::Value(v), Some(_)) => durable[ki] = Last::Value(v.clone()),
                    (Last::Removed, None) => durable[ki] = Last::Removed,
                    // a delete task of an earlier remove deleting a later write's file, or similar:
                    // record what is now on disk as unknown
                    (_, None) => durable[ki] = Last::Removed,
                    (_, Some(_)) => durable[ki] = Last::Never,
                }
            }
        }
        // completion notifications are in-memory only (lost by the crash); whether one is processed
        // before the next operation is a scheduling choice
        while !w.cmd_rx.is_empty() && choice(2) == 1 {
            let cmd = w.cmd_rx.try_recv().unwrap();
            w.dispatch(cmd);
        }
    }
}

// ------------------------------------------------------------------ C04 (network-facing put)

fn c04_unverified_put() {
    pin_hashes(2);
    // the store may be exactly at capacity, holding another (farther) key: an unvalidated arrival must not make room
    // for itself before validation has accepted it
    let full = choice(2) == 1;
    let held = choice(2) == 1;
    let cap = if full { 1 + usize::from(held) } else { 100 };
    let mut w = World::new(cap, 2);
    settle_labelled(&mut w);
    // a small size limit so that the boundary is cheap to reach
    w.driver.node_store().config.max_value_bytes = 40;
    let k = key(0);
    if held {
        let _ = w.driver.arm_put_local_record(chunk_record(&k, 0));
        settle_labelled(&mut w);
    }
    if full {
        env::set_task_label(&key_name(&key(1)));
        let _ = w.driver.arm_put_local_record(chunk_record(&key(1), 0));
        settle_labelled(&mut w);
        cover("store_at_capacity");
        check_bool("setup:store_is_full", w.driver.node_store().records.len() == cap);
    }
    let held_before = held_set(w.driver.node_store());
    let other_before = w.driver.store().get(&key(1)).map(|c| c.into_owned().value);
    let shape = choice(5);
    // record kind of the two boundary-size shapes: paid kinds take another branch of put ("always processed")
    let tag: u8 = if shape == 1 || shape == 2 { [0u8, 1, 4, 5, 7][choice(5)] } else { 1 };
    let rec = match shape {
        0 => chunk_record(&k, 1),                                             // well formed, small
        1 => Record { key: k.clone(), value: vec![0x91, tag, 0xc4, 35].into_iter().chain(std::iter::repeat(7u8).take(35)).collect(), publisher: None, expires: None }, // 39 bytes: just below the limit
        2 => Record { key: k.clone(), value: vec![0x91, tag, 0xc4, 36].into_iter().chain(std::iter::repeat(7u8).take(36)).collect(), publisher: None, expires: None }, // 40 bytes: at the limit
        3 => Record { key: k.clone(), value: vec![0xff, 0x00], publisher: None, expires: None },                // unparseable header
        _ => Record { key: k.clone(), value: vec![], publisher: None, expires: None },                          // empty
    };
    let len = rec.value.len();
    let before = w.driver.store().get(&k).map(|c| c.into_owned().value);
    note(format!("full={full} held={held} shape={shape} kind_tag={tag} len={len}"));
    let r = w.driver.store().put(rec.clone());
    settle_labelled(&mut w);
    let mut forwarded = 0;
    while let Some(e) = w.event_rx.try_recv() {
        if let NetworkEvent::UnverifiedRecord(_) = e {
            forwarded += 1;
        }
    }
    let after = w.driver.store().get(&k).map(|c| c.into_owned().value);
    cover("put");
    // whatever arrives from the network is never readable before validation accepted it
    check_bool("unverified:store_content_unchanged_by_network_put", after == before);
    check_bool("unverified:no_file_written", w.driver.store().contains(&k) == held);
    // "rejected or not yet validated" means nothing changes: no held record is evicted to make room
    check_bool("unverified:network_put_leaves_the_held_set_unchanged", held_set(w.driver.node_store()) == held_before);
    check_bool("unverified:other_held_record_still_readable", w.driver.store().get(&key(1)).map(|c| c.into_owned().value) == other_before);
    check_views_agree(w.driver.node_store(), "unverified");
    if len >= 40 {
        cover("oversized");
        check_bool("unverified:oversized_record_refused", r.is_err() && forwarded == 0);
    }
    if shape == 3 || shape == 4 {
        cover("unparseable");
        check_bool("unverified:unparseable_record_not_forwarded", forwarded == 0);
    }
    if shape <= 1 && !held {
        cover("forwarded");
        check_bool("unverified:valid_new_record_forwarded_for_validation", r.is_ok() && forwarded == 1);
    }
}
