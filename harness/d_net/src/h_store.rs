//! Harnesses over the transplanted record_store.rs (child module: private fields visible).
use super::*;
use crate::util::*;
use symrt::{check, check_bool, choice, cover, note, SymBool, SymU};

pub fn harnesses() -> Vec<Harness> {
    vec![
        Harness { name: "c10_put_step", property: "C10", f: c10_put_step, about: "store of capacity c holding n<=c settled keys; one validated put of a new or held key; acceptance/eviction/refusal exact" },
    ]
}

fn dist_of(store: &NodeRecordStore, k: &Key) -> SymU<256> {
    store.local_address.distance(&NetworkAddress::from_record_key(k)).0
}

/// J: the three views (records, records_by_distance, farthest_record) describe the same set
fn check_views_agree(store: &NodeRecordStore, tag: &str) {
    check_bool(&format!("{tag}/J:index_sizes_equal"), store.records.len() == store.records_by_distance.len());
    for (d, k) in store.records_by_distance.iter() {
        check_bool(&format!("{tag}/J:by_distance_key_is_held"), store.records.contains_key(k));
        check(&format!("{tag}/J:by_distance_value_is_distance"), d.0.seq(dist_of(store, k)).0);
    }
    match &store.farthest_record {
        None => {
            check_bool(&format!("{tag}/J:farthest_none_iff_empty"), store.records.is_empty());
        }
        Some((fk, fd)) => {
            check_bool(&format!("{tag}/J:farthest_is_held"), store.records.contains_key(fk));
            check(&format!("{tag}/J:farthest_distance_is_its_distance"), fd.0.seq(dist_of(store, fk)).0);
            for k in store.records.keys() {
                check(&format!("{tag}/J:farthest_is_max"), dist_of(store, k).sle(fd.0).0);
            }
        }
    }
}

fn held_set(store: &NodeRecordStore) -> Vec<Key> {
    let mut v: Vec<Key> = store.records.keys().cloned().collect();
    v.sort_by_key(|k| k.to_vec());
    v
}

fn c10_put_step() {
    let cap = 1 + choice(3);
    let n_held = choice(cap + 1);
    let mut w = World::new(cap, 4);
    w.settle();
    for i in 0..n_held {
        let r = chunk_record(&key(i as u8), 0);
        let _ = w.driver.arm_put_local_record(r);
        w.settle();
    }
    let store = w.driver.node_store();
    check_bool("setup:all_held", store.records.len() == n_held);
    check_views_agree(store, "pre");
    let before = held_set(store);
    let farthest_before = store.farthest_record.clone();
    // the incoming key: a new one, or one already held
    let incoming_is_new = n_held == 0 || choice(2) == 0;
    let k_in = if incoming_is_new { key(n_held as u8) } else { key(choice(n_held) as u8) };
    let d_in = dist_of(store, &k_in);
    note(format!("cap={cap} held={n_held} incoming={} new={incoming_is_new}", key_name(&k_in)));
    let res = w.driver.arm_put_local_record(chunk_record(&k_in, 1));
    let in_flight = w.in_flight();
    let store = w.driver.node_store();
    let after_now = held_set(store);
    if n_held < cap {
        cover("below_capacity");
        check_bool("below_capacity:accepted", res.is_ok());
        check_bool("below_capacity:nothing_evicted", after_now == before);
    } else if incoming_is_new {
        let (fk, fd) = farthest_before.clone().expect("full store has a farthest");
        if res.is_ok() {
            cover("at_capacity_accept");
            // accepted => not farther than the farthest, and exactly the farthest was evicted
            check("at_capacity:accepted_only_if_closer_than_farthest", d_in.slt(fd.0).0);
            let mut expect = before.clone();
            expect.retain(|k| *k != fk);
            check_bool("at_capacity:exactly_farthest_evicted", after_now == expect);
        } else {
            cover("at_capacity_refuse");
            check("at_capacity:refused_only_if_farther_than_farthest", fd.0.slt(d_in).0);
            check_bool("at_capacity:refusal_leaves_set_unchanged", after_now == before);
            check_bool("at_capacity:refusal_starts_no_write", in_flight == 0);
        }
    }
    check_views_agree(store, "mid");
    w.settle();
    let store = w.driver.node_store();
    check_views_agree(store, "post");
    check_bool("post:held_le_capacity", store.records.len() <= cap);
    if res.is_ok() {
        check_bool("post:accepted_key_is_held", store.records.contains_key(&k_in));
    }
}
