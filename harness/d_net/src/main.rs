//! d_net: transplanted ant-networking sources (record_store.rs, record_store_api.rs,
//! replication_fetcher.rs, arms of cmd.rs, items of lib.rs/driver.rs) executed under symrt.
#![allow(dead_code, unused_imports, unused_variables, unused_mut, unused_assignments, clippy::all)]
// path-qualified uses (`tracing::warn!(..)`) in transplanted code resolve to no-op macros
extern crate noop_tracing as tracing;

// tracing macros: arguments stay type-checked, nothing is evaluated
macro_rules! trace { ($($t:tt)*) => { if false { let _ = format!($($t)*); } } }
macro_rules! debug { ($($t:tt)*) => { if false { let _ = format!($($t)*); } } }
macro_rules! info { ($($t:tt)*) => { if false { let _ = format!($($t)*); } } }
macro_rules! warn { ($($t:tt)*) => { if false { let _ = format!($($t)*); } } }
macro_rules! error { ($($t:tt)*) => { if false { let _ = format!($($t)*); } } }

/// stand-in for libp2p's K_VALUE (see shim.rs)
pub const K_VALUE_MODEL: usize = 3;

pub mod shim;

pub mod target_arch {
    pub use crate::shim::Instant;
    pub use symrt::env::spawn;
}

pub mod cmd {
    use crate::shim::libp2p::kad::{Record, RecordKey};
    use ant_protocol::storage::RecordType;
    /// reduced LocalSwarmCmd: the variants the transplanted code constructs or the model driver dispatches
    #[derive(Debug, Clone)]
    pub enum LocalSwarmCmd {
        PutLocalRecord { record: Record },
        AddLocalRecordAsStored { key: RecordKey, record_type: RecordType },
        RemoveFailedLocalRecord { key: RecordKey },
        FetchCompleted((RecordKey, RecordType)),
        PaymentReceived,
        TriggerIrrelevantRecordCleanup,
    }
    /// reduced NetworkSwarmCmd
    #[derive(Debug)]
    pub enum NetworkSwarmCmd {
        SendRequest {
            req: crate::shim::ant_protocol::messages::Request,
            peer: crate::shim::libp2p::PeerId,
            sender: Option<crate::shim::tokio::sync::oneshot::Sender<()>>,
        },
    }
}

pub mod event {
    use crate::shim::libp2p::kad::{Record, RecordKey};
    use crate::shim::libp2p::PeerId;
    use std::collections::BTreeSet;
    #[derive(Debug, Clone)]
    pub enum TerminateNodeReason {
        HardDiskWriteError,
        UpnpGatewayNotFound,
    }
    #[derive(Debug, Clone)]
    pub enum NetworkEvent {
        KeysToFetchForReplication(Vec<(PeerId, RecordKey)>),
        UnverifiedRecord(Record),
        TerminateNode { reason: TerminateNodeReason },
        FailedToFetchHolders(BTreeSet<PeerId>),
    }
}

pub mod log_markers {
    #[derive(Debug, Clone, Copy)]
    pub enum Marker {
        CloseRecordsLen(usize),
    }
    impl Marker {
        pub fn log(&self) {}
    }
}

pub mod error {
    use crate::shim::libp2p::kad::store::Error as StoreError;
    #[derive(Debug)]
    pub enum NetworkError {
        InCorrectRecordHeader,
        Store(StoreError),
        NotEnoughPeers { found: usize, required: usize },
    }
    impl From<StoreError> for NetworkError {
        fn from(e: StoreError) -> Self {
            NetworkError::Store(e)
        }
    }
}

pub mod driver {
    include!("gen/driver_items.rs");
}
include!("gen/lib_items.rs");

#[path = "gen/record_store.rs"]
pub mod record_store;
#[path = "gen/record_store_api.rs"]
pub mod record_store_api;
#[path = "gen/replication_fetcher.rs"]
pub mod replication_fetcher;
pub mod driver_model;
#[path = "gen/cmd_arms.rs"]
pub mod cmd_arms;
#[path = "gen/distance_glue.rs"]
pub mod distance_glue;
#[path = "gen/driver_fns.rs"]
pub mod driver_fns;
#[path = "gen/closest_items.rs"]
pub mod closest_items;
pub mod h_driver;
pub mod util;

fn main() {
    util::main_dispatch();
}
