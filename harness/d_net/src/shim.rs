//! Shim environment for the transplanted ant-networking sources.
//! Real crates stay real (libp2p Record/RecordKey/PeerId, ant-protocol storage
//! types, aes-gcm-siv, hkdf, rmp, hex, xor_name).  Shimmed: distances (symbolic
//! 256-bit), clocks (symbolic 64-bit), spawn, channels, file system, walkdir, rayon.
#![allow(dead_code)]
use ::libp2p::kad::RecordKey;
use ::libp2p::PeerId;
use symrt::SymU;

// ----- distances -----
#[derive(Clone, Copy, Debug, PartialEq, Eq, PartialOrd, Ord)]
pub struct Distance(pub SymU<256>);

impl Distance {
    pub fn ilog2(&self) -> Option<u32> {
        // only used for logging in the transplanted sources
        None
    }
}

#[derive(Clone, Copy, Debug, PartialEq, Eq, PartialOrd, Ord)]
pub struct U256(pub SymU<256>);

impl U256 {
    pub const ZERO_TAG: u8 = 0;
    pub fn to_be_bytes<const N: usize>(&self) -> [u8; N] {
        // model value only: the bytes end up in QuotingMetrics::network_density,
        // which no claimed assertion reads
        let v = self.0.model_value();
        let b: [u8; 32] = v.to_be_bytes();
        let mut out = [0u8; N];
        out.copy_from_slice(&b[32 - N..]);
        out
    }
    pub fn from_u64(v: u64) -> Self {
        U256(SymU::konst(v))
    }
}

/// identity on the 256-bit term (assumption justified by C11's checks)
pub fn convert_distance_to_u256(d: &Distance) -> U256 {
    U256(d.0)
}

#[derive(Clone, PartialEq, Eq, Hash, PartialOrd, Ord)]
pub struct NetworkAddress {
    pub bytes: Vec<u8>,
    pub is_peer: bool,
}

impl NetworkAddress {
    pub fn from_peer(p: PeerId) -> Self {
        NetworkAddress { bytes: p.to_bytes(), is_peer: true }
    }
    pub fn from_record_key(k: &RecordKey) -> Self {
        NetworkAddress { bytes: k.to_vec(), is_peer: false }
    }
    pub fn to_record_key(&self) -> RecordKey {
        RecordKey::new(&self.bytes)
    }
    pub fn as_peer_id(&self) -> Option<PeerId> {
        if self.is_peer {
            PeerId::from_bytes(&self.bytes).ok()
        } else {
            None
        }
    }
    pub fn as_bytes(&self) -> Vec<u8> {
        self.bytes.clone()
    }
    /// XOR of the (symbolic, collision-free) hashes of the two byte strings
    pub fn distance(&self, other: &NetworkAddress) -> Distance {
        Distance(symrt::env::hash_of(&self.bytes) ^ symrt::env::hash_of(&other.bytes))
    }
}

impl std::fmt::Debug for NetworkAddress {
    fn fmt(&self, f: &mut std::fmt::Formatter<'_>) -> std::fmt::Result {
        write!(f, "NetworkAddress({})", hex::encode(&self.bytes[..self.bytes.len().min(6)]))
    }
}

// ----- clocks -----
#[derive(Clone, Copy, Debug, PartialEq, Eq, PartialOrd, Ord)]
pub struct Instant(pub SymU<64>);

impl Instant {
    pub fn now() -> Self {
        Instant(clock_now())
    }
    pub fn elapsed(&self) -> ::std::time::Duration {
        ::std::time::Duration::ZERO
    }
}
impl std::ops::Add<::std::time::Duration> for Instant {
    type Output = Instant;
    fn add(self, d: ::std::time::Duration) -> Instant {
        Instant(self.0.wrapping_add(SymU::konst(d.as_nanos() as u64)))
    }
}

#[derive(Clone, Copy, Debug, PartialEq, Eq, PartialOrd, Ord)]
pub struct SystemTime(pub SymU<64>);

#[derive(Debug)]
pub struct SystemTimeError;

impl SystemTime {
    pub fn now() -> Self {
        SystemTime(clock_now())
    }
    /// concretised through the model (live_time is not part of any claimed assertion)
    pub fn elapsed(&self) -> Result<::std::time::Duration, SystemTimeError> {
        let now = clock_now();
        let a = now.concretize_by_model();
        let b = self.0.concretize_by_model();
        if a >= b {
            let d: u64 = (a - b).try_into().unwrap_or(u64::MAX);
            Ok(::std::time::Duration::from_nanos(d))
        } else {
            Err(SystemTimeError)
        }
    }
}
impl serde::Serialize for SystemTime {
    fn serialize<S: serde::Serializer>(&self, s: S) -> Result<S::Ok, S::Error> {
        // stored as the term's index is meaningless across paths: store the model value and
        // pin the variable to it (concretisation; the start timestamp is not asserted on)
        let v: u64 = self.0.concretize_by_model().try_into().unwrap_or(0);
        s.serialize_u64(v)
    }
}
impl<'de> serde::Deserialize<'de> for SystemTime {
    fn deserialize<D: serde::Deserializer<'de>>(d: D) -> Result<Self, D::Error> {
        let v = u64::deserialize(d)?;
        Ok(SystemTime(SymU::konst(v)))
    }
}

thread_local! {
    static CLOCK_FROZEN: std::cell::Cell<bool> = std::cell::Cell::new(true);
}
/// frozen: every now() inside one harness step observes the same instant;
/// the harness advances the clock between steps with `advance_clock`.
pub fn set_clock_frozen(b: bool) {
    CLOCK_FROZEN.with(|c| c.set(b));
}
fn clock_now() -> SymU<64> {
    if CLOCK_FROZEN.with(|c| c.get()) {
        symrt::env::now_frozen()
    } else {
        symrt::env::now()
    }
}
/// move the clock to a fresh symbolic instant >= the current one
pub fn advance_clock() -> SymU<64> {
    symrt::env::now()
}

// ----- module trees the transplanted `use` lines are rerouted to -----
pub mod std {
    pub use ::std::*;
    pub use symrt::det::collections;
    pub mod fs {
        pub use symrt::env::fs::*;
    }
    pub mod time {
        pub use super::super::SystemTime;
        pub use ::std::time::Duration;
        pub use ::std::time::UNIX_EPOCH;
    }
}

pub mod libp2p {
    pub use ::libp2p::*;
    pub mod kad {
        pub use super::super::Distance as KBucketDistance;
        pub use ::libp2p::kad::*;
        pub mod store {
            pub use ::libp2p::kad::store::*;
        }
        /// the parallel-fetch limit is libp2p's K_VALUE (20); the harness crate uses a
        /// small stand-in so that "never exceeds the limit" is decidable on small states
        pub const K_VALUE: ::std::num::NonZeroUsize = match ::std::num::NonZeroUsize::new(crate::K_VALUE_MODEL) {
            Some(v) => v,
            None => panic!("K_VALUE_MODEL must be non-zero"),
        };
    }
}

pub mod ant_protocol {
    pub use super::{convert_distance_to_u256, NetworkAddress};
    pub use ::ant_protocol::*;
}

pub mod ant_evm {
    pub use super::U256;
    pub use ::ant_evm::*;
}

pub mod tokio {
    pub mod sync {
        pub mod mpsc {
            pub use symrt::env::mpsc::*;
        }
        pub use ::tokio::sync::oneshot;
    }
    pub mod time {
        pub use ::std::time::Duration;
    }
}

pub mod walkdir {
    use ::std::path::{Path, PathBuf};
    pub struct WalkDir {
        root: PathBuf,
    }
    #[derive(Clone)]
    pub struct DirEntry {
        path: PathBuf,
        is_file: bool,
    }
    #[derive(Debug)]
    pub struct Error;
    #[derive(Clone, Copy)]
    pub struct PathRef<'a>(&'a Path, bool);
    impl<'a> PathRef<'a> {
        pub fn is_file(&self) -> bool {
            self.1
        }
        pub fn file_name(&self) -> Option<&'a ::std::ffi::OsStr> {
            self.0.file_name()
        }
    }
    impl<'a> AsRef<Path> for PathRef<'a> {
        fn as_ref(&self) -> &Path {
            self.0
        }
    }
    impl<'a> ::std::fmt::Debug for PathRef<'a> {
        fn fmt(&self, f: &mut ::std::fmt::Formatter<'_>) -> ::std::fmt::Result {
            write!(f, "{:?}", self.0)
        }
    }
    impl DirEntry {
        pub fn path(&self) -> PathRef<'_> {
            PathRef(&self.path, self.is_file)
        }
    }
    impl WalkDir {
        pub fn new<P: AsRef<Path>>(p: P) -> Self {
            WalkDir { root: p.as_ref().to_path_buf() }
        }
    }
    impl IntoIterator for WalkDir {
        type Item = Result<DirEntry, Error>;
        type IntoIter = ::std::vec::IntoIter<Result<DirEntry, Error>>;
        fn into_iter(self) -> Self::IntoIter {
            let mut v = vec![Ok(DirEntry { path: self.root.clone(), is_file: false })];
            for p in symrt::env::fs::list() {
                if p.starts_with(&self.root) && p != self.root {
                    v.push(Ok(DirEntry { path: p, is_file: true }));
                }
            }
            v.into_iter()
        }
    }
}

pub mod rayon {
    pub mod iter {
        pub trait IntoParallelRefIterator<'a> {
            type Iter;
            fn par_iter(&'a self) -> Self::Iter;
        }
        impl<'a, T: 'a> IntoParallelRefIterator<'a> for Vec<T> {
            type Iter = ::std::slice::Iter<'a, T>;
            fn par_iter(&'a self) -> Self::Iter {
                self.iter()
            }
        }
        pub trait ParallelIterator {}
    }
}
