//! Shim environment for the transplanted ant-networking sources.
//! Real crates stay real (libp2p Record/RecordKey/PeerId, ant-protocol storage
//! types, aes-gcm-siv, hkdf, rmp, hex, xor_name).  Shimmed: distances (symbolic
//! 256-bit), clocks (symbolic 64-bit), spawn, channels, file system, walkdir, rayon.
#![allow(dead_code)]
use ::libp2p::kad::RecordKey;
use ::libp2p::PeerId;
use symrt::SymU;

// ----- distances -----
#[derive(Clone, Copy, PartialEq, Eq, PartialOrd, Ord)]
pub struct Distance(pub SymU<256>);

/// number of significant bits of a symbolic 256-bit value (0 for 0): binary search whose every
/// comparison is decided by the solver, so each of the 257 outcomes is its own path
pub fn sym_bit_len(x: SymU<256>) -> usize {
    let (mut lo, mut hi) = (0usize, 256usize);
    while lo < hi {
        let mid = (lo + hi) / 2;
        let bound = SymU::<256>::konst_u256(ruint::aliases::U256::from(1u8) << mid);
        if x.slt(bound).get() {
            hi = mid;
        } else {
            lo = mid + 1;
        }
    }
    lo
}

impl Distance {
    /// libp2p's Distance::ilog2: floor(log2(d)), None for distance 0
    pub fn ilog2(&self) -> Option<u32> {
        match sym_bit_len(self.0) {
            0 => None,
            n => Some(n as u32 - 1),
        }
    }
}

#[derive(Clone, Copy, Debug, PartialEq, Eq, PartialOrd, Ord)]
pub struct U256(pub SymU<256>);

impl U256 {
    pub const ZERO_TAG: u8 = 0;
    /// ruint's bit_len / leading_zeros / checked_log2 on the symbolic value
    pub fn bit_len(&self) -> usize {
        sym_bit_len(self.0)
    }
    pub fn leading_zeros(&self) -> usize {
        256 - sym_bit_len(self.0)
    }
    pub fn checked_log2(&self) -> Option<usize> {
        match sym_bit_len(self.0) {
            0 => None,
            n => Some(n - 1),
        }
    }
    pub fn to_be_bytes<const N: usize>(&self) -> [u8; N] {
        // model value only: the bytes end up in QuotingMetrics::network_density,
        // which no claimed assertion reads
        let v = self.0.model_value();
        let b: [u8; 32] = v.to_be_bytes();
        let mut out = [0u8; N];
        out.copy_from_slice(&b[32 - N..]);
        out
    }
    pub fn from_u64(v: u64) -> Self {
        U256(SymU::konst(v))
    }
    /// the harness registers which symbolic value a given 32-byte placeholder stands for
    pub fn from_be_bytes(b: [u8; 32]) -> Self {
        if let Some(v) = FROM_BE.with(|f| f.borrow().iter().find(|(k, _)| *k == b).map(|(_, v)| *v)) {
            return U256(v);
        }
        U256(SymU::konst_u256(ruint::aliases::U256::from_be_bytes(b)))
    }
}

/// the real function (transplanted, gen/distance_glue.rs) over the Debug text of the shim Distance
pub use crate::distance_glue::convert_distance_to_u256;

/// decimal text of a 256-bit term: the real decimal digits of a constant; for a symbolic value a placeholder number of
/// 90 digits (longer than any 256-bit value: it cannot be mistaken for one) that carries the identity of the term
fn decimal_text(t: SymU<256>) -> String {
    match t.as_const() {
        Some(v) => v.to_string(),
        None => format!("9999999999{:080}", t.0),
    }
}
/// as libp2p's derived Debug over uint's decimal Debug: `Distance(<decimal digits>)`
impl std::fmt::Debug for Distance {
    fn fmt(&self, f: &mut std::fmt::Formatter<'_>) -> std::fmt::Result {
        write!(f, "Distance({})", decimal_text(self.0))
    }
}
impl U256 {
    pub fn zero() -> Self {
        U256(SymU::konst(0))
    }
}
/// as ruint's FromStr for plain decimal text; a placeholder number is mapped back to the term it stands for
impl std::str::FromStr for U256 {
    type Err = ();
    fn from_str(s: &str) -> Result<Self, ()> {
        if s.is_empty() || !s.bytes().all(|b| b.is_ascii_digit()) {
            // (ruint also accepts 0x / 0o / 0b prefixes and '_' separators: none of them can come out of a decimal print)
            return Err(());
        }
        if s.len() == 90 && s.starts_with("9999999999") {
            let id: u32 = s[10..].parse().map_err(|_| ())?;
            return Ok(U256(SymU(id)));
        }
        if s.len() > 78 {
            return Err(());
        }
        ruint::aliases::U256::from_str_radix(s, 10).map(|v| U256(SymU::konst_u256(v))).map_err(|_| ())
    }
}

#[derive(Clone, PartialEq, Eq, Hash, PartialOrd, Ord)]
pub struct NetworkAddress {
    pub bytes: Vec<u8>,
    pub is_peer: bool,
}

impl NetworkAddress {
    pub fn from_peer(p: PeerId) -> Self {
        NetworkAddress { bytes: p.to_bytes(), is_peer: true }
    }
    pub fn from_record_key(k: &RecordKey) -> Self {
        NetworkAddress { bytes: k.to_vec(), is_peer: false }
    }
    pub fn to_record_key(&self) -> RecordKey {
        RecordKey::new(&self.bytes)
    }
    pub fn as_peer_id(&self) -> Option<PeerId> {
        if self.is_peer {
            PeerId::from_bytes(&self.bytes).ok()
        } else {
            None
        }
    }
    pub fn as_bytes(&self) -> Vec<u8> {
        self.bytes.clone()
    }
    pub fn as_kbucket_key(&self) -> KKey {
        KKey::from_bytes(self.bytes.clone())
    }
    /// XOR of the (symbolic, collision-free) hashes of the two byte strings
    pub fn distance(&self, other: &NetworkAddress) -> Distance {
        Distance(symrt::env::hash_of(&self.bytes) ^ symrt::env::hash_of(&other.bytes))
    }
}

impl std::fmt::Debug for NetworkAddress {
    fn fmt(&self, f: &mut std::fmt::Formatter<'_>) -> std::fmt::Result {
        write!(f, "NetworkAddress({})", hex::encode(&self.bytes[..self.bytes.len().min(6)]))
    }
}

/// stand-in for libp2p's KBucketKey<T>: only the preimage bytes matter (hash = H[bytes])
#[derive(Clone, Debug, PartialEq, Eq)]
pub struct KBucketKey<T> {
    pub bytes: Vec<u8>,
    _t: ::std::marker::PhantomData<T>,
}
pub type KKey = KBucketKey<Vec<u8>>;
impl<T> KBucketKey<T> {
    pub fn from_bytes(bytes: Vec<u8>) -> Self {
        KBucketKey { bytes, _t: ::std::marker::PhantomData }
    }
    /// libp2p: XOR of the SHA-256 digests of the two preimages, as a 256-bit integer
    pub fn distance<U>(&self, other: &KBucketKey<U>) -> Distance {
        Distance(symrt::env::hash_of(&self.bytes) ^ symrt::env::hash_of(&other.bytes))
    }
}
impl From<PeerId> for KKey {
    fn from(p: PeerId) -> Self {
        KKey::from_bytes(p.to_bytes())
    }
}
pub struct KPeer(pub PeerId);
impl KPeer {
    pub fn into_preimage(self) -> PeerId {
        self.0
    }
}

// ----- clocks -----
#[derive(Clone, Copy, Debug, PartialEq, Eq, PartialOrd, Ord)]
pub struct Instant(pub SymU<64>);

impl Instant {
    pub fn now() -> Self {
        Instant(clock_now())
    }
    /// symbolic elapsed time (nanoseconds): now - self
    pub fn elapsed(&self) -> SymDuration {
        SymDuration(clock_now().wrapping_sub(self.0))
    }
}

impl Instant {
    /// std semantics since 1.60: saturates at zero when `earlier` is later
    pub fn duration_since(&self, earlier: Instant) -> SymDuration {
        self.saturating_duration_since(earlier)
    }
    pub fn saturating_duration_since(&self, earlier: Instant) -> SymDuration {
        SymDuration(SymU::select(self.0.slt(earlier.0), SymU::konst(0), self.0.wrapping_sub(earlier.0)))
    }
    pub fn checked_duration_since(&self, earlier: Instant) -> Option<SymDuration> {
        if self.0.slt(earlier.0).get() {
            None
        } else {
            Some(SymDuration(self.0.wrapping_sub(earlier.0)))
        }
    }
    pub fn checked_add(&self, d: ::std::time::Duration) -> Option<Instant> {
        let n = SymU::konst(d.as_nanos() as u64);
        let r = self.0.wrapping_add(n);
        if r.slt(self.0).get() {
            None
        } else {
            Some(Instant(r))
        }
    }
    pub fn checked_sub(&self, d: ::std::time::Duration) -> Option<Instant> {
        let n = SymU::konst(d.as_nanos() as u64);
        if self.0.slt(n).get() {
            None
        } else {
            Some(Instant(self.0.wrapping_sub(n)))
        }
    }
}
impl std::ops::Sub<::std::time::Duration> for Instant {
    type Output = Instant;
    fn sub(self, d: ::std::time::Duration) -> Instant {
        self.checked_sub(d).expect("overflow when subtracting duration from instant")
    }
}
impl std::ops::Sub<Instant> for Instant {
    type Output = SymDuration;
    fn sub(self, o: Instant) -> SymDuration {
        self.saturating_duration_since(o)
    }
}
impl std::ops::AddAssign<::std::time::Duration> for Instant {
    fn add_assign(&mut self, d: ::std::time::Duration) {
        *self = *self + d;
    }
}
impl PartialEq for SymDuration {
    fn eq(&self, o: &SymDuration) -> bool {
        self.0 == o.0
    }
}
impl PartialOrd for SymDuration {
    fn partial_cmp(&self, o: &SymDuration) -> Option<::std::cmp::Ordering> {
        Some(self.0.cmp(&o.0))
    }
}

#[derive(Clone, Copy, Debug)]
pub struct SymDuration(pub SymU<64>);
impl PartialEq<::std::time::Duration> for SymDuration {
    fn eq(&self, o: &::std::time::Duration) -> bool {
        self.0 == SymU::konst(o.as_nanos() as u64)
    }
}
impl PartialOrd<::std::time::Duration> for SymDuration {
    fn partial_cmp(&self, o: &::std::time::Duration) -> Option<::std::cmp::Ordering> {
        Some(self.0.cmp(&SymU::konst(o.as_nanos() as u64)))
    }
    fn lt(&self, o: &::std::time::Duration) -> bool {
        self.0 < SymU::konst(o.as_nanos() as u64)
    }
}
impl std::ops::Add<::std::time::Duration> for Instant {
    type Output = Instant;
    fn add(self, d: ::std::time::Duration) -> Instant {
        Instant(self.0.wrapping_add(SymU::konst(d.as_nanos() as u64)))
    }
}

#[derive(Clone, Copy, Debug, PartialEq, Eq, PartialOrd, Ord)]
pub struct SystemTime(pub SymU<64>);

#[derive(Debug)]
pub struct SystemTimeError;

impl SystemTime {
    pub fn now() -> Self {
        SystemTime(clock_now())
    }
    /// concretised through the model (live_time is not part of any claimed assertion)
    pub fn elapsed(&self) -> Result<::std::time::Duration, SystemTimeError> {
        let now = clock_now();
        let a = now.concretize_by_model();
        let b = self.0.concretize_by_model();
        if a >= b {
            let d: u64 = (a - b).try_into().unwrap_or(u64::MAX);
            Ok(::std::time::Duration::from_nanos(d))
        } else {
            Err(SystemTimeError)
        }
    }
}
impl serde::Serialize for SystemTime {
    fn serialize<S: serde::Serializer>(&self, s: S) -> Result<S::Ok, S::Error> {
        // stored as the term's index is meaningless across paths: store the model value and
        // pin the variable to it (concretisation; the start timestamp is not asserted on)
        let v: u64 = self.0.concretize_by_model().try_into().unwrap_or(0);
        s.serialize_u64(v)
    }
}
impl<'de> serde::Deserialize<'de> for SystemTime {
    fn deserialize<D: serde::Deserializer<'de>>(d: D) -> Result<Self, D::Error> {
        let v = u64::deserialize(d)?;
        Ok(SystemTime(SymU::konst(v)))
    }
}

pub fn register_be_bytes(b: [u8; 32], v: SymU<256>) {
    FROM_BE.with(|f| f.borrow_mut().push((b, v)));
}
fn reset_be() {
    FROM_BE.with(|f| f.borrow_mut().clear());
}
pub fn init_shim() {
    symrt::register_path_reset(reset_be);
}
thread_local! {
    static FROM_BE: std::cell::RefCell<Vec<([u8; 32], SymU<256>)>> = std::cell::RefCell::new(Vec::new());
    static CLOCK_FROZEN: std::cell::Cell<bool> = std::cell::Cell::new(true);
}
/// frozen: every now() inside one harness step observes the same instant;
/// the harness advances the clock between steps with `advance_clock`.
pub fn set_clock_frozen(b: bool) {
    CLOCK_FROZEN.with(|c| c.set(b));
}
fn clock_now() -> SymU<64> {
    if CLOCK_FROZEN.with(|c| c.get()) {
        symrt::env::now_frozen()
    } else {
        symrt::env::now()
    }
}
/// move the clock to a fresh symbolic instant >= the current one
pub fn advance_clock() -> SymU<64> {
    symrt::env::now()
}

// ----- module trees the transplanted `use` lines are rerouted to -----
pub mod std {
    pub use ::std::*;
    pub use symrt::det::collections;
    pub mod fs {
        pub use symrt::env::fs::*;
    }
    pub mod time {
        pub use super::super::SystemTime;
        pub use ::std::time::Duration;
        pub use ::std::time::UNIX_EPOCH;
    }
}

pub mod libp2p {
    pub use ::libp2p::*;
    pub mod kad {
        pub use super::super::Distance as KBucketDistance;
        pub use super::super::KBucketKey;
        pub use ::libp2p::kad::*;
        pub mod store {
            pub use ::libp2p::kad::store::*;
        }
        /// the parallel-fetch limit is libp2p's K_VALUE (20); the harness crate uses a
        /// small stand-in so that "never exceeds the limit" is decidable on small states
        pub const K_VALUE: ::std::num::NonZeroUsize = match ::std::num::NonZeroUsize::new(crate::K_VALUE_MODEL) {
            Some(v) => v,
            None => panic!("K_VALUE_MODEL must be non-zero"),
        };
    }
}

pub mod ant_protocol {
    pub use super::{convert_distance_to_u256, NetworkAddress};
    pub use ::ant_protocol::*;
    /// reduced message types over the shim NetworkAddress
    pub mod messages {
        use super::NetworkAddress;
        use ::ant_protocol::storage::RecordType;
        #[derive(Debug, Clone, PartialEq, Eq)]
        pub enum Cmd {
            Replicate { holder: NetworkAddress, keys: Vec<(NetworkAddress, RecordType)> },
        }
        #[derive(Debug, Clone, PartialEq, Eq)]
        pub enum Request {
            Cmd(Cmd),
        }
    }
}

pub mod ant_evm {
    pub use super::U256;
    pub use ::ant_evm::*;
}

pub mod tokio {
    pub mod sync {
        pub mod mpsc {
            pub use symrt::env::mpsc::*;
        }
        pub use ::tokio::sync::oneshot;
    }
    pub mod time {
        pub use ::std::time::Duration;
    }
}

pub mod walkdir {
    use ::std::path::{Path, PathBuf};
    pub struct WalkDir {
        root: PathBuf,
    }
    #[derive(Clone)]
    pub struct DirEntry {
        path: PathBuf,
        is_file: bool,
    }
    #[derive(Debug)]
    pub struct Error;
    #[derive(Clone, Copy, Debug, PartialEq, Eq)]
    pub struct FileType(bool);
    impl FileType {
        pub fn is_file(&self) -> bool {
            self.0
        }
        pub fn is_dir(&self) -> bool {
            !self.0
        }
    }
    /// `is_file()` on a path, a walkdir file type or file metadata, answered from the in-memory file system
    /// (the generator rewrites `.is_file()` to `.model_is_file()` in record_store.rs, so that `DirEntry::path()` can
    /// hand out a real `&Path` and refactored code that stores or returns it keeps building)
    pub trait ModelIsFile {
        fn model_is_file(&self) -> bool;
    }
    impl ModelIsFile for Path {
        fn model_is_file(&self) -> bool {
            symrt::env::fs::exists(self)
        }
    }
    impl ModelIsFile for PathBuf {
        fn model_is_file(&self) -> bool {
            symrt::env::fs::exists(self)
        }
    }
    impl ModelIsFile for FileType {
        fn model_is_file(&self) -> bool {
            self.0
        }
    }
    impl ModelIsFile for symrt::env::fs::Metadata {
        fn model_is_file(&self) -> bool {
            self.is_file()
        }
    }
    impl DirEntry {
        pub fn path(&self) -> &Path {
            &self.path
        }
        pub fn into_path(self) -> PathBuf {
            self.path
        }
        pub fn file_name(&self) -> &::std::ffi::OsStr {
            self.path.file_name().unwrap_or(self.path.as_os_str())
        }
        pub fn metadata(&self) -> Result<symrt::env::fs::Metadata, Error> {
            if self.is_file {
                symrt::env::fs::metadata(&self.path).map_err(|_| Error)
            } else {
                Ok(symrt::env::fs::Metadata::dir())
            }
        }
        pub fn depth(&self) -> usize {
            usize::from(self.is_file)
        }
        pub fn file_type(&self) -> FileType {
            FileType(self.is_file)
        }
    }
    impl WalkDir {
        pub fn new<P: AsRef<Path>>(p: P) -> Self {
            WalkDir { root: p.as_ref().to_path_buf() }
        }
    }
    impl IntoIterator for WalkDir {
        type Item = Result<DirEntry, Error>;
        type IntoIter = ::std::vec::IntoIter<Result<DirEntry, Error>>;
        fn into_iter(self) -> Self::IntoIter {
            let mut v = vec![Ok(DirEntry { path: self.root.clone(), is_file: false })];
            for p in symrt::env::fs::list() {
                if p.starts_with(&self.root) && p != self.root {
                    v.push(Ok(DirEntry { path: p, is_file: true }));
                }
            }
            v.into_iter()
        }
    }
}

pub mod rayon {
    pub mod iter {
        pub trait IntoParallelRefIterator<'a> {
            type Iter;
            fn par_iter(&'a self) -> Self::Iter;
        }
        impl<'a, T: 'a> IntoParallelRefIterator<'a> for Vec<T> {
            type Iter = ::std::slice::Iter<'a, T>;
            fn par_iter(&'a self) -> Self::Iter {
                self.iter()
            }
        }
        pub trait ParallelIterator {}
    }
}
