//! Harness plumbing shared by the d_net harnesses.
use crate::cmd::LocalSwarmCmd;
use crate::driver_model::SwarmDriver;
use crate::event::NetworkEvent;
use crate::record_store::{NodeRecordStore, NodeRecordStoreConfig};
use crate::record_store_api::UnifiedRecordStore;
use crate::replication_fetcher::ReplicationFetcher;
use crate::shim::libp2p::kad::{Record, RecordKey};
use crate::shim::libp2p::PeerId;
use crate::shim::tokio::sync::mpsc;
use ant_protocol::storage::{try_serialize_record, Chunk, RecordKind, RecordType};
use bytes::Bytes;
use std::path::PathBuf;
use symrt::env;

pub fn self_peer() -> PeerId {
    PeerId::from_bytes(&[0x00, 0x06, b's', b'e', b'l', b'f', 0, 1]).expect("identity multihash")
}
pub fn peer(i: u8) -> PeerId {
    PeerId::from_bytes(&[0x00, 0x06, b'p', b'e', b'e', b'r', 0, i]).expect("identity multihash")
}
pub fn key(i: u8) -> RecordKey {
    RecordKey::new(&[0xA0 + i; 32])
}
pub fn key_name(k: &RecordKey) -> String {
    format!("k{}", k.as_ref()[0].wrapping_sub(0xA0))
}

/// a record with a real, decodable header; `variant` varies the payload
pub fn chunk_record(k: &RecordKey, variant: u8) -> Record {
    // odd variants are longer than even ones, so an overwrite may shrink or grow the file
    let mut content = vec![variant, 0x11, 0x22, variant];
    if variant % 2 == 1 {
        content.extend_from_slice(&[0x55, 0x66, 0x77]);
    }
    let chunk = Chunk::new(Bytes::from(content));
    let bytes = try_serialize_record(&chunk, RecordKind::Chunk).expect("serialise").to_vec();
    Record { key: k.clone(), value: bytes, publisher: None, expires: None }
}
/// a record whose header says Register (non-chunk kinds are indexed by content hash)
pub fn nonchunk_record(k: &RecordKey, variant: u8) -> Record {
    let mut payload: Vec<u8> = vec![variant, 0x33, 0x44, variant, variant];
    if variant % 2 == 1 {
        payload.extend_from_slice(&[0x88, 0x99, 0xaa, 0xbb]);
    }
    let bytes = try_serialize_record(&payload, RecordKind::Register).expect("serialise").to_vec();
    Record { key: k.clone(), value: bytes, publisher: None, expires: None }
}
pub fn record_type_of(r: &Record) -> RecordType {
    use ant_protocol::storage::RecordHeader;
    match RecordHeader::from_record(r).expect("header").kind {
        RecordKind::Chunk => RecordType::Chunk,
        RecordKind::Scratchpad => RecordType::Scratchpad,
        _ => RecordType::NonChunk(xor_name::XorName::from_content(&r.value)),
    }
}

/// WLOG: every distance a harness observes is taken from one reference point r (the node itself, or
/// the one target address), d(x) = H[x] xor H[r].  x -> x xor H[r] is a bijection that preserves
/// distinctness, so fixing H[r] = 0 loses no behaviour and turns distances into plain variables.
pub fn pin_reference(bytes: &[u8]) {
    env::set_hash(bytes, symrt::SymU::konst(0));
}
pub fn pin_self_reference() {
    pin_reference(&self_peer().to_bytes());
}

pub fn storage_dir() -> PathBuf {
    PathBuf::from("/node/record_store")
}
pub fn root_dir() -> PathBuf {
    PathBuf::from("/node")
}

pub struct World {
    pub driver: SwarmDriver,
    pub cmd_rx: mpsc::Receiver<LocalSwarmCmd>,
    pub event_rx: mpsc::Receiver<NetworkEvent>,
}

pub fn store_config(max_records: usize, cache: usize) -> NodeRecordStoreConfig {
    NodeRecordStoreConfig {
        storage_dir: storage_dir(),
        historic_quote_dir: root_dir(),
        max_records,
        max_value_bytes: crate::driver::MAX_PACKET_SIZE,
        records_cache_size: cache,
        encryption_seed: [7u8; 16],
    }
}

impl World {
    /// fresh node over the current (in-memory) directory content
    pub fn new(max_records: usize, cache: usize) -> World {
        Self::new_with(max_records, cache, crate::driver::MAX_PACKET_SIZE)
    }
    pub fn new_with(max_records: usize, cache: usize, max_value_bytes: usize) -> World {
        let (ev_tx, ev_rx) = mpsc::channel::<NetworkEvent>(100);
        let (cmd_tx, cmd_rx) = mpsc::channel::<LocalSwarmCmd>(100);
        let mut cfg = store_config(max_records, cache);
        cfg.max_value_bytes = max_value_bytes;
        let store = NodeRecordStore::with_config(self_peer(), cfg, ev_tx.clone(), cmd_tx);
        let fetcher = ReplicationFetcher::new(self_peer(), ev_tx.clone());
        World { driver: SwarmDriver::new(UnifiedRecordStore::Node(store), fetcher, ev_tx), cmd_rx, event_rx: ev_rx }
    }
    pub fn dispatch(&mut self, cmd: LocalSwarmCmd) {
        let _ = match cmd {
            LocalSwarmCmd::PutLocalRecord { record } => self.driver.arm_put_local_record(record),
            LocalSwarmCmd::AddLocalRecordAsStored { key, record_type } => {
                self.driver.arm_add_local_record_as_stored(key, record_type)
            }
            LocalSwarmCmd::RemoveFailedLocalRecord { key } => self.driver.arm_remove_failed_local_record(key),
            LocalSwarmCmd::FetchCompleted((k, t)) => self.driver.arm_fetch_completed(k, t),
            LocalSwarmCmd::PaymentReceived => self.driver.arm_payment_received(),
            LocalSwarmCmd::TriggerIrrelevantRecordCleanup => self.driver.arm_trigger_irrelevant_record_cleanup(),
        };
    }
    /// run every pending task and deliver every pending notification, FIFO, until quiescent
    pub fn settle(&mut self) {
        loop {
            env::run_all_tasks();
            match self.cmd_rx.try_recv() {
                Some(cmd) => self.dispatch(cmd),
                None => {
                    if env::pending_tasks().is_empty() {
                        break;
                    }
                }
            }
        }
    }
    pub fn in_flight(&self) -> usize {
        env::pending_tasks().len() + self.cmd_rx.len()
    }
}

// ---------------- registry / main ----------------
pub struct Harness {
    pub name: &'static str,
    pub property: &'static str,
    pub f: fn(),
    pub about: &'static str,
}

pub fn registry() -> Vec<Harness> {
    let mut v = vec![];
    v.extend(crate::record_store::harness::harnesses());
    v.extend(crate::replication_fetcher::harness::harnesses());
    v.extend(crate::h_driver::harnesses());
    v
}

pub fn main_dispatch() {
    let args: Vec<String> = std::env::args().collect();
    let mut names: Vec<String> = vec![];
    let mut cfg = symrt::Config::default();
    cfg.threads = 1;
    let mut out: Option<String> = None;
    let mut replay: Option<(String, usize)> = None;
    let mut i = 1;
    while i < args.len() {
        match args[i].as_str() {
            "--list" => {
                for h in registry() {
                    println!("{}\t{}\t{}", h.name, h.property, h.about);
                }
                return;
            }
            "--threads" => {
                cfg.threads = args[i + 1].parse().unwrap();
                i += 1;
            }
            "--max-paths" => {
                cfg.max_paths = args[i + 1].parse().unwrap();
                i += 1;
            }
            "--split-depth" => {
                cfg.split_depth = args[i + 1].parse().unwrap();
                i += 1;
            }
            "--seed" => {
                cfg.seed = args[i + 1].parse().unwrap();
                i += 1;
            }
            "--time" => {
                cfg.time_budget_s = args[i + 1].parse().unwrap();
                i += 1;
            }
            "--crosscheck-every" => {
                cfg.crosscheck_every = args[i + 1].parse().unwrap();
                i += 1;
            }
            "--out" => {
                out = Some(args[i + 1].clone());
                i += 1;
            }
            "--replay" => {
                replay = Some((args[i + 1].clone(), args[i + 2].parse().unwrap()));
                i += 2;
            }
            n => names.push(n.to_string()),
        }
        i += 1;
    }
    symrt::det::set_seed(cfg.seed);
    // registered per thread by the harness bodies (see h_driver)
    let reg = registry();
    if let Some((file, idx)) = replay {
        // replay violation #idx of a report file for the named harness
        let text = std::fs::read_to_string(&file).expect("read replay file");
        let j: serde_json::Value = serde_json::from_str(&text).unwrap();
        let hname = j["harness"].as_str().unwrap().to_string();
        let h = reg.iter().find(|h| h.name == hname).expect("unknown harness");
        let vj = &j["violations"][idx];
        let mut v = symrt::Violation::default();
        v.check = vj["check"].as_str().unwrap().to_string();
        for (k, val) in vj["model"].as_object().unwrap() {
            v.model.insert(k.clone(), val.as_str().unwrap().to_string());
        }
        for t in vj["trail"].as_array().unwrap() {
            v.trail.push((t[0].as_u64().unwrap() as u32, t[1].as_bool().unwrap()));
        }
        let f = h.f;
        let again = symrt::replay_concrete(&move || f(), &v);
        let hit = again.iter().any(|a| a.check == v.check);
        println!("{}", serde_json::json!({"harness": hname, "check": v.check, "reproduced": hit,
            "seen": again.iter().map(|a| a.check.clone()).collect::<Vec<_>>() }));
        std::process::exit(if hit { 1 } else { 2 });
    }
    let mut reports = vec![];
    for n in &names {
        let h = reg.iter().find(|h| h.name == *n).unwrap_or_else(|| panic!("unknown harness {}", n));
        let f = h.f;
        let mut rep = symrt::run(h.name, &move || f(), &cfg);
        rep.harness = h.name.to_string();
        let mut j = rep.to_json();
        j["property"] = serde_json::json!(h.property);
        j["about"] = serde_json::json!(h.about);
        reports.push(j);
    }
    let text = serde_json::to_string_pretty(&serde_json::json!(reports)).unwrap();
    match out {
        Some(p) => std::fs::write(p, text).unwrap(),
        None => println!("{}", text),
    }
}
