//! C15 harnesses over the transplanted client read paths (child module of client_items).
use super::*;
use crate::runner::Harness;
use crate::scratchpad::access as pad_access;
use crate::shim::client::ClientNet;
use crate::shim::{self, peer, Counter};
use ant_protocol::storage::try_serialize_record;
use bytes::Bytes;
use libp2p::kad::{Record, RecordKey};
use std::cell::RefCell;
use libp2p::PeerId;
use symrt::env::block_on;
use symrt::{assume, check, check_bool, choice, cover, note, SymU};

pub fn harnesses() -> Vec<Harness> {
    vec![
        Harness { name: "c15_chunk", property: "C15", f: c15_chunk, about: "chunk_get: whatever record a holder returns for the requested key, data handed back hashes to the requested address" },
        Harness { name: "c15_vault", property: "C15", f: c15_vault, about: "vault read: single or split replies with symbolic counters, owners and signature status: the returned scratchpad is the owner's, validly signed, highest valid counter" },
    ]
}

fn sk(i: u8) -> bls::SecretKey {
    let mut b = [0u8; 32];
    b[31] = 7 + i;
    b[30] = 1;
    bls::SecretKey::from_bytes(b).expect("valid scalar")
}
fn client(reply: Result<Record, NetworkError>) -> Client {
    symrt::register_path_reset(shim::reset);
    Client { network: ClientNet { reply: RefCell::new(Some(reply)), asked: RefCell::new(vec![]) } }
}

fn c15_chunk() {
    shim::reset();
    let wanted = Chunk::new(Bytes::from(vec![1u8, 2, 3]));
    let other = Chunk::new(Bytes::from(vec![9u8, 9, 9, 9]));
    let addr: XorName = *wanted.address().xorname();
    let key = NetworkAddress::from_chunk_address(ChunkAddress::new(addr)).to_record_key();
    let what = choice(7);
    let other_rec = Record { key: key.clone(), value: try_serialize_record(&other, RecordKind::Chunk).unwrap().to_vec(), publisher: None, expires: None };
    let reply: Result<Record, NetworkError> = match what {
        // error outcomes of the network layer that carry a record from too few / disagreeing holders
        5 => Err(NetworkError::GetRecordError(GetRecordError::NotEnoughCopies { record: other_rec.clone(), expected: 3, got: 1 })),
        6 => Err(NetworkError::GetRecordError(GetRecordError::RecordDoesNotMatch(other_rec.clone()))),
        0 => Ok(Record { key: key.clone(), value: try_serialize_record(&wanted, RecordKind::Chunk).unwrap().to_vec(), publisher: None, expires: None }),
        // a holder substitutes other content under the requested key
        1 => Ok(Record { key: key.clone(), value: try_serialize_record(&other, RecordKind::Chunk).unwrap().to_vec(), publisher: None, expires: None }),
        // wrong kind
        2 => Ok(Record { key: key.clone(), value: try_serialize_record(&vec![1u8, 2], RecordKind::Register).unwrap().to_vec(), publisher: None, expires: None }),
        // garbage
        3 => Ok(Record { key: key.clone(), value: vec![0x91], publisher: None, expires: None }),
        _ => Err(NetworkError::GetRecordError(GetRecordError::RecordNotFound)),
    };
    note(format!("reply: {}", ["requested chunk", "other chunk under the requested key", "record of another kind", "garbage", "not found", "not enough copies (carrying another chunk)", "does not match (carrying another chunk)"][what]));
    let c = client(reply);
    let got = block_on(c.chunk_get(addr));
    match got {
        Ok(chunk) => {
            cover("returned");
            if XorName::from_content(chunk.value()) != addr {
                check_bool("chunk:returned_data_hashes_to_requested_address[recomputed_address_never_compared]", false);
            } else {
                check_bool("chunk:returned_data_hashes_to_requested_address", true);
            }
        }
        Err(_) => {
            cover("error");
            check_bool("chunk:authentic_chunk_is_returned", what != 0);
        }
    }
}

fn c15_vault() {
    shim::reset();
    let owner = sk(1);
    let pad_addr = ScratchpadAddress::new(owner.public_key());
    let key = NetworkAddress::from_scratchpad_address(pad_addr).to_record_key();
    let split = choice(2) == 1;
    // up to two versions; each: owner = requested / foreign, signature valid / invalid
    let ca = Counter(SymU::fresh("counter_a"));
    let cb = Counter(SymU::fresh("counter_b"));
    // the two counters are unrelated: a may be lower, equal or higher
    let b_higher = ca.0.slt(cb.0).get();
    let equal = ca.0.seq(cb.0).get();
    let mk = |tag: &[u8], c: Counter, foreign: bool, valid: bool| {
        let o = if foreign { sk(2) } else { sk(1) };
        let signer = if valid { Some(o.clone()) } else { Some(sk(5)) };
        pad_access::make(&o, c, tag, signer.as_ref())
    };
    let (fa, va) = (choice(2) == 1, choice(2) == 1);
    let pa = mk(b"version-a", ca, fa, va);
    // a holder controls every byte of the record it returns, its key field included: a foreign pad comes either under
    // the requested key or under the key of its own address (nothing below the client compares that field with the query)
    let rec = |p: &Scratchpad| {
        let own_key = NetworkAddress::from_scratchpad_address(*p.address()).to_record_key();
        let k = if own_key != key && choice(2) == 1 { symrt::cover("foreign_pad_under_its_own_key"); own_key } else { key.clone() };
        Record { key: k, value: try_serialize_record(p, RecordKind::Scratchpad).unwrap().to_vec(), publisher: None, expires: None }
    };
    let err_with_record = if split { 0 } else { choice(3) };
    // (authentic?, counter, payload tag) of every version the reply carries
    let mut all_versions: Vec<(bool, Counter, Vec<u8>)> = vec![(!fa && va, ca, b"version-a".to_vec())];
    let (reply, b_info) = if err_with_record == 1 {
        // too few holders answered; the error carries the one version they returned
        (Err(NetworkError::GetRecordError(GetRecordError::NotEnoughCopies { record: rec(&pa), expected: 3, got: 1 })), None)
    } else if err_with_record == 2 {
        (Err(NetworkError::GetRecordError(GetRecordError::RecordDoesNotMatch(rec(&pa)))), None)
    } else if split {
        let (fb, vb) = (choice(2) == 1, choice(2) == 1);
        let pb = mk(b"version-b", cb, fb, vb);
        let mut entries: Vec<(Record, PeerId)> = vec![(rec(&pa), peer(1)), (rec(&pb), peer(2))];
        all_versions.push((!fb && vb, cb, b"version-b".to_vec()));
        // thorough tier: a third version with its own unrelated counter
        if std::env::var("C15_VERSIONS").ok().as_deref() == Some("3") {
            let cc = Counter(SymU::fresh("counter_c"));
            let (fc, vc) = (choice(2) == 1, choice(2) == 1);
            let pc = mk(b"version-c", cc, fc, vc);
            entries.push((rec(&pc), peer(3)));
            all_versions.push((!fc && vc, cc, b"version-c".to_vec()));
        }
        // the reply's map is a std HashMap with a random hasher state: its iteration order is outside anybody's
        // control, so every order is explored (a choice), and the map is rebuilt until it iterates in the chosen
        // order (which also makes re-execution of this path deterministic)
        let n = entries.len();
        let mut perms: Vec<Vec<usize>> = vec![vec![]];
        for i in 0..n {
            perms = perms.into_iter().flat_map(|p| (0..=p.len()).map(move |pos| { let mut q = p.clone(); q.insert(pos, i); q })).collect();
        }
        let want = perms[choice(perms.len())].clone();
        let mut result_map = std::collections::HashMap::new();
        for _attempt in 0..10_000 {
            result_map = std::collections::HashMap::new();
            for (r, p) in &entries {
                result_map.insert(XorName::from_content(&r.value), (r.clone(), std::collections::HashSet::from([*p])));
            }
            let order: Vec<usize> = result_map.values().map(|(r, _)| entries.iter().position(|(e, _)| e.value == r.value).unwrap()).collect();
            if order == want {
                break;
            }
        }
        note(format!("versions are iterated in the order {:?} (0 = a, 1 = b, 2 = c)", want));
        (Err(NetworkError::GetRecordError(GetRecordError::SplitRecord { result_map })), Some((fb, vb)))
    } else {
        (Ok(rec(&pa)), None)
    };
    note(format!("split={split} error_reply_carrying_a={} a: foreign={fa} valid={va}  b: {:?}", ["no", "NotEnoughCopies", "RecordDoesNotMatch"][err_with_record], b_info));
    let c = client(reply);
    let got = block_on(c.get_vault_from_network(&owner));
    let a_ok = !fa && va;
    let b_ok = b_info.map(|(f, v)| !f && v).unwrap_or(false);
    match got {
        Ok(pad) => {
            cover("returned");
            let authentic = pad.owner() == &owner.public_key() && pad.is_valid();
            if !authentic {
                check_bool("vault:returned_pad_is_owned_and_validly_signed[received_pads_never_validated]", false);
            } else {
                check_bool("vault:returned_pad_is_owned_and_validly_signed", true);
                // general form (any number of versions): the returned pad is one of the authentic versions received,
                // and no authentic version received has a higher counter
                let payload = pad_access::payload_of(&pad);
                check_bool("vault:returned_pad_is_one_of_the_authentic_versions_received", all_versions.iter().any(|(ok, _, tag)| *ok && *tag == payload));
                for (ok, ct, _) in &all_versions {
                    if *ok {
                        check("vault:no_authentic_version_with_a_higher_counter", ct.0.sle(pad.count().0).0);
                    }
                }
                // highest valid counter among those received
                let is_b = pad_access::payload_of(&pad) == b"version-b".to_vec();
                if all_versions.len() > 2 {
                    cover("three_versions");
                } else if a_ok && b_ok {
                    if equal {
                        cover("equal_counters");
                    } else {
                        check_bool("vault:highest_valid_counter_is_returned", is_b == b_higher);
                    }
                } else if b_ok {
                    check_bool("vault:highest_valid_counter_is_returned", is_b);
                } else {
                    check_bool("vault:highest_valid_counter_is_returned", !is_b);
                }
            }
        }
        Err(_) => {
            cover("error");
            if err_with_record != 0 {
                cover("error_reply_with_record_refused");
            } else if all_versions.iter().any(|(ok, _, _)| *ok) {
                check_bool("vault:authentic_version_available_but_read_failed", false);
            }
        }
    }
}
