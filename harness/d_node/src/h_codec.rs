//! C12 harness (engine D part): a record's encoding is a function of the value and its kind only -- whatever was
//! encoded before on the same thread, including attempts that failed midway.
use crate::runner::Harness;
use ant_protocol::storage::{try_deserialize_record, try_serialize_record, Chunk, RecordHeader, RecordKind};
use bytes::Bytes;
use libp2p::kad::{Record, RecordKey};
use serde::ser::{Error as _, SerializeTuple};
use serde::{Serialize, Serializer};
use symrt::{check_bool, choice, cover, note};

pub fn harnesses() -> Vec<Harness> {
    vec![Harness { name: "c12_encode_history", property: "C12", f: c12_encode_history, about: "try_serialize_record after 0..2 earlier encodings on the same thread, each succeeding or failing after having written part of its payload: the bytes equal those of a fresh encoding, carry their own kind tag in the fixed-size prefix and decode to the value" }]
}

/// a payload whose serialisation fails after `written` of its elements went out (like a SystemTime before the epoch
/// deep inside a payment proof)
struct FailsMidway {
    written: usize,
}
impl Serialize for FailsMidway {
    fn serialize<S: Serializer>(&self, s: S) -> Result<S::Ok, S::Error> {
        let mut t = s.serialize_tuple(4)?;
        for i in 0..self.written {
            t.serialize_element(&(0xA0u8 + i as u8))?;
        }
        Err(S::Error::custom("this value cannot be serialised"))
    }
}

const KINDS: [RecordKind; 4] = [RecordKind::Chunk, RecordKind::Scratchpad, RecordKind::Register, RecordKind::Transaction];

fn c12_encode_history() {
    let value = Chunk::new(Bytes::from(vec![1u8, 2, 3, 4, 5, 6]));
    // reference: the encoding on a thread that has encoded nothing else
    let reference = std::thread::spawn({
        let v = value.clone();
        move || try_serialize_record(&v, RecordKind::Chunk).map(|b| b.to_vec()).ok()
    })
    .join()
    .expect("reference thread");
    let Some(reference) = reference else {
        check_bool("history:setup_reference_encodes", false);
        return;
    };
    // the plan is chosen here; it is carried out on a fresh OS thread, so that nothing an earlier path left behind in
    // thread-local state can leak into this one (and a counterexample replays)
    let n_before = choice(3);
    let mut plan: Vec<(usize, usize)> = vec![];
    for _ in 0..n_before {
        plan.push((choice(3), choice(4)));
    }
    let what: Vec<&str> = plan.iter().map(|(o, _)| ["ok", "fails at once", "fails midway"][*o]).collect();
    if plan.iter().any(|(o, _)| *o != 0) {
        cover("after_a_failed_encoding");
    }
    note(format!("earlier encodings on this thread: {what:?}"));
    let (earlier_as_expected, got) = std::thread::spawn({
        let v = value.clone();
        move || {
            let mut as_expected = true;
            for (o, k) in plan {
                let kind = KINDS[k];
                as_expected &= match o {
                    0 => try_serialize_record(&vec![7u8; 9], kind).is_ok(),
                    1 => try_serialize_record(&FailsMidway { written: 0 }, kind).is_err(),
                    _ => try_serialize_record(&FailsMidway { written: 3 }, kind).is_err(),
                };
            }
            (as_expected, try_serialize_record(&v, RecordKind::Chunk).map(|b| b.to_vec()))
        }
    })
    .join()
    .expect("history thread");
    check_bool("history:earlier_encodings_succeed_or_fail_as_their_payload_says", earlier_as_expected);
    cover("encoded");
    match got {
        Ok(bytes) => {
            check_bool("history:encoding_is_independent_of_what_was_encoded_before", bytes == reference);
            check_bool("history:fixed_size_prefix_carries_the_own_kind_tag", bytes.len() >= RecordHeader::SIZE && bytes[..RecordHeader::SIZE] == reference[..RecordHeader::SIZE]);
            let rec = Record { key: RecordKey::new(&[1u8; 32]), value: bytes, publisher: None, expires: None };
            let kind_ok = RecordHeader::from_record(&rec).map(|h| h.kind == RecordKind::Chunk).unwrap_or(false);
            check_bool("history:decoded_kind_is_the_encoded_kind", kind_ok);
            let back: Option<Chunk> = try_deserialize_record(&rec).ok();
            check_bool("history:decodes_to_the_encoded_value", back.as_ref() == Some(&value));
        }
        Err(_) => {
            check_bool("history:encodable_value_is_encoded", false);
        }
    }
}
