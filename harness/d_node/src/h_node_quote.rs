//! C13 / C03 harnesses over the transplanted ant-node/src/quote.rs (child module).
use super::*;
use crate::data_payments::{PaymentQuote, QUOTE_EXPIRATION_SECS};
use crate::runner::Harness;
use crate::shim::libp2p::identity::{ideal_sign, PublicKey as QuoteKey};
use crate::shim::{self, peer, SystemTime};
use evmlib::quoting_metrics::QuotingMetrics as Metrics;
use symrt::env::block_on;
use symrt::{check, check_bool, choice, cover, note, SymBool, SymU};
use xor_name::XorName;

pub fn harnesses() -> Vec<Harness> {
    vec![
        Harness { name: "c13_node_quote", property: "C13", f: c13_node_quote, about: "a quote the node creates verifies for the node and for the quoted address only; any altered field, another address or an age beyond the window is refused by verify_quote_for_storecost" },
        Harness { name: "c13_quotes_duty", property: "C13", f: c13_quotes_duty, about: "quotes_verification hands a neighbour's quote to the history check exactly when the node's own quote verifies and the neighbour's quote is for the same target, within 10 s of it and signed by the claimed peer" },
    ]
}

fn setup() -> crate::shim::Network {
    symrt::register_path_reset(shim::reset);
    shim::reset();
    crate::shim::Network::new(peer(0))
}
fn chunk_addr(b: u8) -> NetworkAddress {
    NetworkAddress::from_chunk_address(ChunkAddress::new(XorName([b; 32])))
}
fn metrics() -> Metrics {
    Metrics { close_records_stored: 3, max_records: 100, received_payment_count: 5, live_time: 100, network_density: None, network_size: Some(7) }
}
fn signed(key_no: u8, content: XorName, ts: SystemTime) -> PaymentQuote {
    let mut q = PaymentQuote { content, timestamp: ts, quoting_metrics: metrics(), rewards_address: evmlib::common::Address::repeat_byte(0x11), pub_key: QuoteKey(key_no).encode_protobuf(), signature: vec![] };
    q.signature = ideal_sign(key_no, &q.bytes_for_sig());
    q
}

fn c13_node_quote() {
    let net = setup();
    let addr = chunk_addr(1);
    let q = Node::create_quote_for_storecost(&net, &addr, &metrics(), &evmlib::common::Address::repeat_byte(0x11)).expect("quote");
    cover("created");
    check_bool("node_quote:names_the_quoted_address", q.content == XorName([1; 32]));
    check_bool("node_quote:verifies_for_the_creating_node", q.check_is_signed_by_claimed_peer(peer(0)));
    check_bool("node_quote:does_not_verify_for_another_node", !q.check_is_signed_by_claimed_peer(peer(1)));
    check_bool("node_quote:carries_the_given_metrics_and_address", q.quoting_metrics == metrics() && q.rewards_address == evmlib::common::Address::repeat_byte(0x11));
    check_bool("node_quote:fresh_quote_verifies_for_its_address", verify_quote_for_storecost(&net, q.clone(), &addr).is_ok());
    check_bool("node_quote:refused_for_another_address", verify_quote_for_storecost(&net, q.clone(), &chunk_addr(2)).is_err());
    // a quote of this node with an arbitrary age: accepted exactly inside the validity window
    let t = SystemTime::fresh("own_quote_timestamp_s");
    let aged = signed(0, XorName([1; 32]), t);
    let now = shim::now_secs();
    let ok = verify_quote_for_storecost(&net, aged.clone(), &addr).is_ok();
    let in_window = t.0.sle(now).and(now.wrapping_sub(t.0).sle(SymU::konst(QUOTE_EXPIRATION_SECS)));
    check("node_quote:own_quote_accepted_iff_inside_the_validity_window", in_window.iff(SymBool::konst(ok)).0);
    // any altered signed field, or somebody else's signature, is refused
    let mut altered = signed(0, XorName([1; 32]), SystemTime(now));
    let what = choice(6);
    match what {
        0 => altered.quoting_metrics.received_payment_count += 1,
        1 => altered.quoting_metrics.live_time += 1,
        2 => altered.quoting_metrics.close_records_stored += 1,
        3 => altered.rewards_address = evmlib::common::Address::repeat_byte(0x44),
        4 => altered.signature = ideal_sign(3, &altered.bytes_for_sig()),
        _ => altered.quoting_metrics.network_size = None,
    }
    note(format!("altered: {}", ["received_payment_count", "live_time", "close_records_stored", "rewards_address", "signed by another key", "network_size"][what]));
    check_bool("node_quote:altered_quote_refused", verify_quote_for_storecost(&net, altered, &addr).is_err());
}

fn c13_quotes_duty() {
    let net = setup();
    let now = shim::now_secs();
    let t0 = SystemTime::fresh("own_quote_timestamp_s");
    let t1 = SystemTime::fresh("neighbour_quote_timestamp_s");
    let own_genuine = choice(2) == 0;
    let mut own = signed(0, XorName([1; 32]), t0);
    if !own_genuine {
        own.quoting_metrics.live_time += 1;
    }
    let same_target = choice(2) == 0;
    let neighbour_genuine = choice(2) == 0;
    let mut other = signed(1, XorName([if same_target { 1 } else { 2 }; 32]), t1);
    if !neighbour_genuine {
        other.signature = ideal_sign(5, &other.bytes_for_sig());
    }
    let self_listed = choice(2) == 0;
    let mut quotes = vec![(peer(1), other.clone())];
    if self_listed {
        quotes.insert(0, (peer(0), own.clone()));
    }
    note(format!("self_listed={self_listed} own_genuine={own_genuine} same_target={same_target} neighbour_genuine={neighbour_genuine}"));
    block_on(quotes_verification(&net, quotes));
    let handed = net.inner.handed_to_history_check.borrow().clone();
    cover("ran");
    // what the property asks for, as terms over the two timestamps and the clock
    let own_in_window = t0.0.sle(now).and(now.wrapping_sub(t0.0).sle(SymU::konst(QUOTE_EXPIRATION_SECS)));
    let gap = SymU::select(t0.0.slt(t1.0), t1.0.wrapping_sub(t0.0), t0.0.wrapping_sub(t1.0));
    let around_same_time = gap.slt(SymU::konst(10));
    let discrete = self_listed && own_genuine && same_target && neighbour_genuine;
    if handed.is_empty() {
        cover("nothing_handed_down");
        check("duty:neighbour_quote_skipped_only_for_a_reason", SymBool::konst(discrete).and(own_in_window).and(around_same_time).not().0);
    } else {
        cover("handed_down");
        check_bool("duty:only_the_neighbours_quote_is_handed_down", handed.len() == 1 && handed[0].0 == peer(1) && handed[0].1 == other);
        check_bool("duty:handed_down_only_if_own_quote_genuine_and_neighbour_quote_for_same_target_and_signed", discrete);
        check("duty:handed_down_only_if_own_quote_inside_its_window", own_in_window.0);
        check("duty:handed_down_only_if_within_ten_seconds", around_same_time.0);
    }
}
