//! Harnesses over the transplanted put_validation.rs (child module).
use super::*;
use crate::data_payments::{EncodedPeerId, PaymentQuote};
use crate::runner::Harness;
use crate::scratchpad::access as pad_access;
use crate::shim::libp2p::identity::{ideal_sign, PublicKey as QuoteKey};
use crate::shim::{self, peer, Counter, Network, SystemTime, CONTRACT};
use ant_protocol::storage::{ChunkAddress, ScratchpadAddress};
use ant_registers::{Permissions, Register};
use bytes::Bytes;
use evmlib::quoting_metrics::QuotingMetrics;
use std::collections::BTreeSet as StdBTreeSet;
use symrt::env::{block_on, noop_waker};
use symrt::{check, check_bool, choice, cover, note, SymBool, SymU};

pub fn harnesses() -> Vec<Harness> {
    vec![
        Harness { name: "c03_paid_put", property: "C03", f: c03_paid_put, about: "client upload with a proof of payment to an address not yet held: stored only if every payment condition holds; otherwise rejected and nothing stored" },
        Harness { name: "c03_unpaid_put", property: "C03", f: c03_unpaid_put, about: "uploads without payment: accepted only as updates to mutable records already held" },
        Harness { name: "c04_key_binding", property: "C04", f: c04_key_binding, about: "client put / unpaid update / replication of every kind under the derived key or a foreign key: a foreign key is rejected and nothing changes" },
        Harness { name: "c07_scratchpad_seq", property: "C07", f: c07_scratchpad_seq, about: "stored scratchpad with symbolic counter, one delivery (update or replicated copy) with symbolic counter, owner and signature status: never regresses, only owner-signed content" },
        Harness { name: "c07_union", property: "C07", f: c07_union, about: "transaction sets and register operations: union of validly signed deliveries, independent of order; invalid or foreign entries never stored" },
        Harness { name: "c07_scratchpad_conc", property: "C07", f: c07_scratchpad_conc, about: "two replicated scratchpad copies of one key processed concurrently (every interleaving of queries and deferred puts): the highest valid counter wins" },
    ]
}

pub(crate) fn sk(i: u8) -> bls::SecretKey {
    let mut b = [0u8; 32];
    b[31] = 7 + i;
    b[30] = 1;
    bls::SecretKey::from_bytes(b).expect("valid scalar")
}

fn self_id() -> libp2p::PeerId {
    peer(0)
}

pub(crate) struct Ctx {
    pub(crate) node: crate::node::Node,
    pub(crate) net: Network,
}
pub(crate) fn new_ctx() -> Ctx {
    symrt::register_path_reset(shim::reset);
    shim::reset();
    let net = Network::new(self_id());
    // as the real get_closest_k_value_local_peers: self first, then the known peers by increasing XOR distance to self
    let mut known = vec![peer(1), peer(2)];
    known.sort_by_key(|p| dist_to_self(*p));
    let mut close = vec![peer(0)];
    close.extend(known);
    *net.inner.close_peers.borrow_mut() = close;
    Ctx { node: crate::node::Node::new(net.clone()), net }
}
fn dist_to_self(p: libp2p::PeerId) -> libp2p::kad::KBucketDistance {
    NetworkAddress::from_peer(peer(0)).distance(&NetworkAddress::from_peer(p))
}
/// identities the node has never heard of: one XOR-closer to it than its farthest known close peer, one farther
/// (neither is "a peer the node knows as close")
fn strangers() -> (u8, u8) {
    let farthest_known = [peer(1), peer(2)].into_iter().map(dist_to_self).max().expect("two known peers");
    let near = (5u8..=250).find(|i| dist_to_self(peer(*i)) < farthest_known).expect("a near stranger");
    let far = (5u8..=250).find(|i| dist_to_self(peer(*i)) > farthest_known).expect("a far stranger");
    (near, far)
}
fn store_keys(c: &Ctx) -> Vec<Vec<u8>> {
    let mut v: Vec<Vec<u8>> = c.net.inner.store.borrow().keys().map(|k| k.to_vec()).collect();
    v.sort();
    v
}
pub(crate) fn store_snapshot(c: &Ctx) -> Vec<(Vec<u8>, Vec<u8>)> {
    let mut v: Vec<(Vec<u8>, Vec<u8>)> = c.net.inner.store.borrow().iter().map(|(k, r)| (k.to_vec(), r.value.clone())).collect();
    v.sort();
    v
}

fn quote(key_no: u8, content: XorName, ts: SystemTime) -> PaymentQuote {
    let mut q = PaymentQuote {
        content,
        timestamp: ts,
        quoting_metrics: QuotingMetrics::default(),
        rewards_address: evmlib::utils::dummy_address(),
        pub_key: QuoteKey(key_no).encode_protobuf(),
        signature: vec![],
    };
    q.signature = ideal_sign(key_no, &q.bytes_for_sig());
    q
}

#[derive(Clone, Copy, Debug, PartialEq)]
pub(crate) enum Kind {
    Chunk,
    Scratchpad,
    Transaction,
    Register,
}
pub(crate) const KINDS: [Kind; 4] = [Kind::Chunk, Kind::Scratchpad, Kind::Transaction, Kind::Register];

fn the_chunk() -> Chunk {
    Chunk::new(Bytes::from(vec![1u8, 2, 3, 4, 5]))
}
pub(crate) fn the_pad(counter: Counter) -> Scratchpad {
    pad_access::make(&sk(1), counter, b"pad-payload", Some(&sk(1)))
}
pub(crate) fn the_tx(owner: u8, tag: u8, signer: u8) -> Transaction {
    Transaction::new(sk(owner).public_key(), vec![], [tag; 32], vec![], &sk(signer))
}
pub(crate) fn the_register(owner: u8) -> SignedRegister {
    let reg = Register::new(sk(owner).public_key(), XorName([9; 32]), Permissions::new_anyone_can_write());
    let sig = sk(owner).sign(reg.bytes().expect("bytes"));
    SignedRegister::new(reg, sig, StdBTreeSet::new())
}

/// (network address, derived key) of the payload of this kind
pub(crate) fn address_of(kind: Kind) -> NetworkAddress {
    match kind {
        Kind::Chunk => the_chunk().network_address(),
        Kind::Scratchpad => the_pad(Counter(SymU::konst(1))).network_address(),
        Kind::Transaction => NetworkAddress::from_transaction_address(the_tx(2, 1, 2).address()),
        Kind::Register => NetworkAddress::from_register_address(*the_register(3).address()),
    }
}

fn paid_record(kind: Kind, key: RecordKey, proof: ProofOfPayment) -> Record {
    let value = match kind {
        Kind::Chunk => try_serialize_record(&(proof, the_chunk()), RecordKind::ChunkWithPayment),
        Kind::Scratchpad => try_serialize_record(&(proof, the_pad(Counter(SymU::konst(1)))), RecordKind::ScratchpadWithPayment),
        Kind::Transaction => try_serialize_record(&(proof, the_tx(2, 1, 2)), RecordKind::TransactionWithPayment),
        Kind::Register => try_serialize_record(&(proof, the_register(3)), RecordKind::RegisterWithPayment),
    }
    .expect("serialise")
    .to_vec();
    Record { key, value, publisher: None, expires: None }
}
pub(crate) fn unpaid_record(kind: Kind, key: RecordKey) -> Record {
    let value = match kind {
        Kind::Chunk => try_serialize_record(&the_chunk(), RecordKind::Chunk),
        Kind::Scratchpad => try_serialize_record(&the_pad(Counter(SymU::konst(1))), RecordKind::Scratchpad),
        Kind::Transaction => try_serialize_record(&vec![the_tx(2, 1, 2)], RecordKind::Transaction),
        Kind::Register => try_serialize_record(&the_register(3), RecordKind::Register),
    }
    .expect("serialise")
    .to_vec();
    Record { key, value, publisher: None, expires: None }
}

// ------------------------------------------------------------------ C03

fn c03_paid_put() {
    let c = new_ctx();
    let kind = KINDS[choice(4)];
    let addr = address_of(kind);
    let key = addr.to_record_key();
    let target = addr.as_xorname().expect("xorname");
    // conditions, each of which the uploader may violate
    let sigs_authentic = choice(2) == 0;
    let self_is_payee = choice(2) == 0;
    let payees_close = choice(2) == 0;
    // the chain's answer: every asked quote paid, or exactly one position (0, 1 or 2 in the order asked) not paid,
    // or the call itself fails
    let chain = choice(5);
    let own_quote_for_this_address = choice(2) == 0;
    let two_quotes = choice(2) == 1;
    // quote timestamps are free symbolic instants: fresh / too old / in the future is the solver's call
    let t0 = SystemTime::fresh("quote0_timestamp_s");
    let t1 = SystemTime::fresh("quote1_timestamp_s");
    let now = shim::now_secs();
    // quote 0: ours (or, if self is not a payee, peer 1's); quote 1: another payee
    let k0: u8 = if self_is_payee { 0 } else { 1 };
    // the other payee: a known close peer, or an identity that is not among the close peers -- whether it happens to
    // be XOR-near to the node or far from it, the node does not *know* it as close
    let (near_stranger, far_stranger) = strangers();
    let k1: u8 = if payees_close { 2 } else if choice(2) == 0 { cover("unknown_payee_xor_near"); near_stranger } else { far_stranger };
    let other = XorName([0x77; 32]);
    let mut q0 = quote(k0, if own_quote_for_this_address { target } else { other }, t0);
    let mut q1 = quote(k1, target, t1);
    let include_q1 = two_quotes || !payees_close;
    let mut forged_extra = false;
    if !sigs_authentic {
        // one quote of the proof is signed by somebody else's key, carries garbage, or had a signed field
        // altered after signing
        let on_q1 = include_q1 && choice(2) == 1;
        let q = if on_q1 { &mut q1 } else { &mut q0 };
        match choice(5) {
            0 => q.signature = ideal_sign(9, &q.bytes_for_sig()),
            1 => q.signature = vec![1, 2, 3],
            2 => q.quoting_metrics.received_payment_count += 1,
            3 => {
                // a quote made, keyed and validly signed by another identity, filed under the declared payee's id
                let (content, ts) = (q.content, q.timestamp);
                *q = quote(8, content, ts);
            }
            _ => forged_extra = true,
        }
    }
    let mut peer_quotes = vec![(EncodedPeerId::from(peer(k0)), q0)];
    if include_q1 {
        peer_quotes.push((EncodedPeerId::from(peer(k1)), q1));
    }
    let n_quotes = peer_quotes.len();
    if forged_extra {
        // an additional entry whose claimed identity does not decode, with an unsigned quote naming our key
        let mut f = quote(0, target, t0);
        f.signature = vec![];
        peer_quotes.push((crate::data_payments::harness::undecodable_peer_id(), f));
    }
    let proof = ProofOfPayment { peer_quotes };
    let asked = proof.peer_quotes.len();
    let contract_ok = match chain {
        0 => true,
        4 => false,
        i => i - 1 >= asked, // an unpaid position beyond what is asked about is no refusal
    };
    CONTRACT.with(|ct| {
        let mut ct = ct.borrow_mut();
        ct.rpc_fails = chain == 4;
        ct.unpaid = if (1..=3).contains(&chain) { vec![chain - 1] } else { vec![] };
    });
    note(format!("{kind:?} sigs={sigs_authentic} self_payee={self_is_payee} payees_close={payees_close} chain={} own_quote_addr={own_quote_for_this_address} quotes={n_quotes}", ["all paid", "position 0 unpaid", "position 1 unpaid", "position 2 unpaid", "call fails"][chain]));
    let before = store_keys(&c);
    let res = block_on(c.node.validate_and_store_record(paid_record(kind, key.clone(), proof)));
    let stored = c.net.inner.store.borrow().contains_key(&key);
    // expiry of the quotes that are part of the proof, as terms
    let fresh = |t: SystemTime| t.0.sle(now).and(now.wrapping_sub(t.0).sle(SymU::konst(3600)));
    let mut none_expired = fresh(t0);
    if n_quotes == 2 {
        none_expired = none_expired.and(fresh(t1));
    }
    if stored {
        cover("stored");
        check_bool("paid:stored_only_if_every_quote_authentically_signed", sigs_authentic);
        check_bool("paid:stored_only_if_self_among_payees", self_is_payee);
        check_bool("paid:stored_only_if_all_payees_known_close", payees_close || n_quotes == 1);
        check_bool("paid:stored_only_if_contract_confirms", contract_ok);
        check("paid:stored_only_if_no_quote_expired", none_expired.0);
        check_bool("paid:stored_only_if_own_quote_issued_for_this_address", own_quote_for_this_address);
        check_bool("paid:stored_upload_is_acknowledged", res.is_ok());
    } else {
        cover("rejected");
        check_bool("paid:rejected_upload_returns_error", res.is_err());
        check_bool("paid:rejection_leaves_store_unchanged", store_keys(&c) == before);
        // non-vacuity of the positive direction: with every condition true the upload is stored
        let all = sigs_authentic && self_is_payee && payees_close && contract_ok && own_quote_for_this_address;
        if all {
            check("paid:valid_paid_upload_is_stored", none_expired.not().0);
        }
    }
}

fn c03_unpaid_put() {
    let c = new_ctx();
    let kind = KINDS[choice(4)];
    let addr = address_of(kind);
    let key = addr.to_record_key();
    let held = choice(2) == 1;
    if held {
        // an older version is held already (for mutable kinds) / the same chunk
        let r = match kind {
            Kind::Scratchpad => {
                let p = pad_access::make(&sk(1), Counter(SymU::konst(0)), b"old", Some(&sk(1)));
                Record { key: key.clone(), value: try_serialize_record(&p, RecordKind::Scratchpad).unwrap().to_vec(), publisher: None, expires: None }
            }
            _ => unpaid_record(kind, key.clone()),
        };
        c.net.hold(r);
    }
    // the uploader may present the record under the key of some *other* record the node holds (of another kind and
    // address): holding that one does not make this upload an update of a held record
    let other_kind = if kind == Kind::Register { Kind::Scratchpad } else { Kind::Register };
    let other_key = address_of(other_kind).to_record_key();
    let under_other_held_key = !held && choice(2) == 1;
    if under_other_held_key {
        c.net.hold(unpaid_record(other_kind, other_key.clone()));
        cover("presented_under_the_key_of_another_held_record");
    }
    note(format!("{kind:?} held={held} presented_under_another_held_key={under_other_held_key}"));
    let before = store_snapshot(&c);
    let presented_key = if under_other_held_key { other_key.clone() } else { key.clone() };
    let res = block_on(c.node.validate_and_store_record(unpaid_record(kind, presented_key)));
    let changed = store_snapshot(&c) != before;
    if under_other_held_key {
        check_bool("unpaid:not_an_update_of_the_record_held_under_that_key", res.is_err() && !changed);
        return;
    }
    match kind {
        Kind::Chunk | Kind::Transaction => {
            cover("immutable_unpaid");
            check_bool("unpaid:immutable_kinds_rejected", res.is_err() && !changed);
        }
        Kind::Scratchpad | Kind::Register => {
            if held {
                cover("update_of_held");
                check_bool("unpaid:update_of_held_record_accepted", res.is_ok());
            } else {
                cover("not_held");
                check_bool("unpaid:accepted_only_as_update_of_held_record", res.is_err() && !changed);
            }
        }
    }
}

// ------------------------------------------------------------------ C04

fn c04_key_binding() {
    let c = new_ctx();
    let kind = KINDS[choice(4)];
    let addr = address_of(kind);
    let derived = addr.to_record_key();
    let foreign = RecordKey::new(&[0x42u8; 32]);
    let use_foreign = choice(2) == 1;
    let key = if use_foreign { foreign.clone() } else { derived.clone() };
    let path = choice(3); // 0 paid client put, 1 unpaid update, 2 replication
    let target = addr.as_xorname().unwrap();
    if path == 1 {
        // unpaid updates need the record to be held; hold it under the key the uploader claims too,
        // so that only the key check can stop a foreign key
        for k in [derived.clone(), foreign.clone()] {
            let r = match kind {
                Kind::Scratchpad => {
                    let p = pad_access::make(&sk(1), Counter(SymU::konst(0)), b"old", Some(&sk(1)));
                    Record { key: k.clone(), value: try_serialize_record(&p, RecordKind::Scratchpad).unwrap().to_vec(), publisher: None, expires: None }
                }
                _ => unpaid_record(kind, k.clone()),
            };
            let _ = k;
            c.net.hold(r);
        }
    }
    CONTRACT.with(|ct| { let mut ct = ct.borrow_mut(); ct.unpaid = vec![]; ct.rpc_fails = false; });
    // the same content may already be held under the key it determines (the "already present" short cuts
    // must not let it in under another key)
    let held_under_true_key = path != 1 && choice(2) == 1;
    if held_under_true_key {
        c.net.hold(unpaid_record(kind, derived.clone()));
        cover("content_already_held_under_its_own_key");
    }
    let before = store_snapshot(&c);
    let now = shim::now_secs();
    let mut rec = match path {
        0 => {
            let ts = SystemTime(now);
            let proof = ProofOfPayment { peer_quotes: vec![(EncodedPeerId::from(peer(0)), quote(0, target, ts))] };
            paid_record(kind, key.clone(), proof)
        }
        _ => unpaid_record(kind, key.clone()),
    };
    // whoever presents a record under a foreign key controls every byte of it: if the name the content determines
    // appears anywhere in the encoding (an address that carries its name next to the fields the name is derived
    // from), it is rewritten to the foreign name
    let mut name_rewritten = false;
    if use_foreign {
        let foreign_name = XorName([0x42u8; 32]);
        let mut rewritten = rec.value.clone();
        let mut hits = 0;
        for (from, to) in [(rmp_serde::to_vec(&target).unwrap(), rmp_serde::to_vec(&foreign_name).unwrap()), (target.0.to_vec(), foreign_name.0.to_vec())] {
            let mut i = 0;
            while i + from.len() <= rewritten.len() {
                if rewritten[i..i + from.len()] == from[..] {
                    rewritten.splice(i..i + from.len(), to.iter().cloned());
                    i += to.len();
                    hits += 1;
                } else {
                    i += 1;
                }
            }
        }
        // (the quote of a paid upload legitimately names the content it was issued for: that field is the payer's
        // business and is checked against the address separately, so it is only rewritten along with the rest)
        if hits > 0 && choice(2) == 1 {
            rec.value = rewritten;
            name_rewritten = true;
            cover("derived_name_found_on_the_wire_and_rewritten");
        }
    }
    let res = match path {
        0 | 1 => block_on(c.node.validate_and_store_record(rec)),
        _ => block_on(c.node.store_replicated_in_record(rec)),
    };
    note(format!("{kind:?} path={} foreign_key={use_foreign} content_already_held={held_under_true_key} name_rewritten_on_the_wire={name_rewritten}", ["client-paid", "unpaid-update", "replication"][path]));
    let after = store_snapshot(&c);
    if use_foreign {
        cover("foreign_key");
        check_bool("key:record_under_foreign_key_rejected", res.is_err());
        check_bool("key:nothing_changes_for_foreign_key", after == before);
        // nothing else happens on its behalf either: it is not replicated onwards, no fetch is marked complete, no payment counted
        let quiet = c.node.replicated.borrow().is_empty() && c.net.inner.fetch_completed.borrow().is_empty() && c.net.inner.payments_notified.get() == 0;
        check_bool("key:no_side_effect_for_foreign_key", quiet);
    } else {
        cover("derived_key");
        // everything that is stored sits under the key the content determines
        for (k, _) in after.iter() {
            if !before.iter().any(|(bk, _)| bk == k) {
                check_bool("key:new_record_only_under_derived_key", *k == derived.to_vec());
            }
        }
        if (path == 2 || path == 0) && !held_under_true_key {
            check_bool("key:valid_record_under_derived_key_is_stored", res.is_ok());
        }
    }
}

// ------------------------------------------------------------------ C07

fn stored_pad(c: &Ctx, key: &RecordKey) -> Option<Scratchpad> {
    c.net.inner.store.borrow().get(key).map(|r| try_deserialize_record::<Scratchpad>(r).expect("stored pad decodes"))
}

fn c07_scratchpad_seq() {
    let c = new_ctx();
    let owner = sk(1);
    let c0 = Counter(SymU::fresh("stored_counter"));
    let c1 = Counter(SymU::fresh("delivered_counter"));
    let old = pad_access::make(&owner, c0, b"old-content", Some(&owner));
    let key = old.network_address().to_record_key();
    let old_rec = Record { key: key.clone(), value: try_serialize_record(&old, RecordKind::Scratchpad).unwrap().to_vec(), publisher: None, expires: None };
    // the stored version is settled, or it is the first version ever accepted for the key and its disk write has not
    // been acknowledged yet (readable from the record cache, not yet in the index)
    let first_write_pending = choice(2) == 1;
    if first_write_pending {
        c.net.inner.index_lag.set(true);
        let r0 = block_on(c.node.store_replicated_in_record(old_rec.clone()));
        check_bool("pad:setup_first_version_accepted", r0.is_ok() && stored_pad(&c, &key).is_some());
        cover("first_write_still_pending");
    } else {
        c.net.hold(old_rec.clone());
    }
    // the delivered version: owner-signed, signed by somebody else, or unsigned; possibly for another owner
    let sig = choice(3);
    let foreign_owner = choice(2) == 1;
    let pad_owner = if foreign_owner { sk(2) } else { sk(1) };
    let signer = match sig {
        0 => Some(pad_owner.clone()),
        1 => Some(sk(4)),
        _ => None,
    };
    let new = pad_access::make(&pad_owner, c1, b"new-content", signer.as_ref());
    let via_replication = choice(2) == 1;
    let rec = Record { key: key.clone(), value: try_serialize_record(&new, RecordKind::Scratchpad).unwrap().to_vec(), publisher: None, expires: None };
    note(format!("first_write_pending={first_write_pending} signature={} foreign_owner={foreign_owner} via_replication={via_replication}", ["owner", "other key", "none"][sig]));
    let res = if via_replication { block_on(c.node.store_replicated_in_record(rec)) } else { block_on(c.node.validate_and_store_record(rec)) };
    c.net.complete_writes();
    let now_stored = stored_pad(&c, &key).expect("key still held");
    let replaced = pad_access::payload_of(&now_stored) == b"new-content".to_vec();
    if replaced {
        cover("replaced");
        check_bool("pad:stored_version_is_owner_signed", sig == 0 && !foreign_owner);
        check("pad:applied_only_if_counter_strictly_higher", c0.0.slt(c1.0).0);
        check_bool("pad:stored_pad_is_valid", now_stored.is_valid());
    } else {
        cover("kept");
        check_bool("pad:kept_version_unchanged", pad_access::payload_of(&now_stored) == b"old-content".to_vec());
        // a validly signed strictly newer version from the owner must not be dropped
        if sig == 0 && !foreign_owner {
            if first_write_pending && !via_replication && res.is_err() {
                // an unpaid client update is an update of a record the node *holds*; while the first write of the key
                // has not been acknowledged the node may answer "not held" with an error (the sender knows it was
                // refused) -- what it must not do is answer Ok and drop it
                cover("unpaid_update_refused_while_first_write_pending");
            } else {
                check("pad:valid_newer_version_is_applied", c0.0.slt(c1.0).not().0);
            }
        }
    }
    // whatever happened, the counter did not decrease
    check("pad:counter_never_decreases", c0.0.sle(now_stored.count().0).0);
    let _ = res;
}

fn c07_union() {
    let c = new_ctx();
    let what = choice(4);
    if what == 3 {
        // a register with a writers list that the node holds; an update arrives whose only entry repeats the content of
        // a held entry (same Merkle node) but is signed by a key that is not a writer, or carries a forged signature
        use ant_registers::RegisterOp;
        let reg = Register::new(sk(3).public_key(), XorName([9; 32]), Permissions::new_with([sk(5).public_key()]));
        let sig = sk(3).sign(reg.bytes().expect("bytes"));
        let base = SignedRegister::new(reg, sig.clone(), StdBTreeSet::new());
        let addr = *base.address();
        let key = NetworkAddress::from_register_address(addr).to_record_key();
        let node_of = |e: &[u8]| {
            let mut crdt = ant_registers::RegisterCrdt::new(addr);
            crdt.write(e.to_vec(), &StdBTreeSet::new()).expect("write").2
        };
        let mut held = base.clone();
        held.add_op(RegisterOp::new(addr, node_of(b"entry-a"), &sk(5))).expect("writer's op");
        let rec = |r: &SignedRegister| Record { key: key.clone(), value: try_serialize_record(r, RecordKind::Register).unwrap().to_vec(), publisher: None, expires: None };
        let _ = block_on(c.node.store_replicated_in_record(rec(&held)));
        c.net.complete_writes();
        // (signed by a stranger's key; forged signature bytes would need the op's private fields)
        let bad = RegisterOp::new(addr, node_of(b"entry-a"), &sk(6));
        let incoming = SignedRegister::new(base.base_register().clone(), sig.clone(), [bad.clone()].into_iter().collect());
        let via_client = choice(2) == 1;
        note(format!("restricted register; held entry repeated under an invalid signer/signature; via_client={via_client}"));
        let _ = if via_client { block_on(c.node.validate_and_store_record(rec(&incoming))) } else { block_on(c.node.store_replicated_in_record(rec(&incoming))) };
        c.net.complete_writes();
        let stored: SignedRegister = c.net.inner.store.borrow().get(&key).map(|r| try_deserialize_record(r).unwrap()).expect("still held");
        cover("restricted_register");
        check_bool("reg:entry_from_a_non_writer_or_with_a_forged_signature_is_never_stored", !stored.ops().contains(&bad));
        check_bool("reg:stored_register_verifies", stored.verify().is_ok());
        check_bool("reg:held_entries_are_kept", stored.ops().len() == 1);
    } else if what == 2 {
        // one owner key names a transaction address and a scratchpad address (both are the hash of the owner's
        // public key): a validly signed record of the other kind must never replace what is stored there
        let tx1 = the_tx(2, 1, 2);
        let tx2 = the_tx(2, 2, 2);
        let key = NetworkAddress::from_transaction_address(tx1.address()).to_record_key();
        let pad = pad_access::make(&sk(2), Counter(SymU::fresh("pad_counter")), b"pad", Some(&sk(2)));
        let pad_key = pad.network_address().to_record_key();
        check_bool("cross:setup_same_key_for_both_kinds", pad_key == key);
        let txrec = |v: Vec<Transaction>| Record { key: key.clone(), value: try_serialize_record(&v, RecordKind::Transaction).unwrap().to_vec(), publisher: None, expires: None };
        let padrec = Record { key: key.clone(), value: try_serialize_record(&pad, RecordKind::Scratchpad).unwrap().to_vec(), publisher: None, expires: None };
        let tx_first = choice(2) == 0;
        let pad_path = choice(2); // 0 replication, 1 client update of a held key
        note(format!("cross-kind tx_first={tx_first} scratchpad_path={}", ["replication", "client-update"][pad_path]));
        if tx_first {
            let _ = block_on(c.node.store_replicated_in_record(txrec(vec![tx1.clone()])));
            c.net.complete_writes();
            let _ = if pad_path == 0 { block_on(c.node.store_replicated_in_record(padrec.clone())) } else { block_on(c.node.validate_and_store_record(padrec.clone())) };
            c.net.complete_writes();
            let _ = block_on(c.node.store_replicated_in_record(txrec(vec![tx2.clone()])));
            c.net.complete_writes();
            let stored: Option<Vec<Transaction>> = c.net.inner.store.borrow().get(&key).and_then(|r| try_deserialize_record(r).ok());
            cover("cross_kind");
            check_bool("cross:transaction_set_survives_scratchpad_delivery", stored.as_ref().map(|v| v.contains(&tx1)).unwrap_or(false));
            check_bool("cross:transaction_set_still_grows_afterwards", stored.as_ref().map(|v| v.contains(&tx2) && v.len() == 2).unwrap_or(false));
        } else {
            c.net.hold(padrec.clone());
            let _ = block_on(c.node.store_replicated_in_record(txrec(vec![tx1.clone()])));
            c.net.complete_writes();
            let stored: Option<Scratchpad> = c.net.inner.store.borrow().get(&key).and_then(|r| try_deserialize_record(r).ok());
            cover("cross_kind");
            check_bool("cross:scratchpad_survives_transaction_delivery", stored.map(|p| p.is_valid() && pad_access::payload_of(&p) == b"pad".to_vec()).unwrap_or(false));
        }
    } else if what == 0 {
        // transactions of owner 2: deliveries A = {tx1}, B = {tx2, forged tx3, foreign tx4} in either order
        let tx1 = the_tx(2, 1, 2);
        let tx2 = the_tx(2, 2, 2);
        let forged = the_tx(2, 3, 4); // owner 2, signed by key 4
        let foreign = the_tx(3, 4, 3); // valid, but another owner's address
        let key = NetworkAddress::from_transaction_address(tx1.address()).to_record_key();
        let rec = |v: Vec<Transaction>| Record { key: key.clone(), value: try_serialize_record(&v, RecordKind::Transaction).unwrap().to_vec(), publisher: None, expires: None };
        // same owner, other content, carrying the signature bytes of the genuine tx1
        let mut copied_sig = the_tx(2, 9, 2);
        copied_sig.signature = tx1.signature.clone();
        let a = rec(vec![tx1.clone()]);
        let b = rec(vec![tx2.clone(), forged.clone(), foreign.clone(), copied_sig.clone()]);
        let order = choice(2);
        let dup = choice(2) == 1;
        let seq: Vec<Record> = match (order, dup) {
            (0, false) => vec![a.clone(), b.clone()],
            (0, true) => vec![a.clone(), b.clone(), a.clone()],
            (_, false) => vec![b.clone(), a.clone()],
            (_, true) => vec![b.clone(), a.clone(), b.clone()],
        };
        let back_to_back = choice(2) == 1;
        c.net.inner.index_lag.set(true);
        note(format!("transactions order={order} duplicate={dup} back_to_back={back_to_back}"));
        for r in seq {
            let _ = block_on(c.node.store_replicated_in_record(r));
            if !back_to_back {
                c.net.complete_writes();
            }
        }
        c.net.complete_writes();
        let stored: Vec<Transaction> = c.net.inner.store.borrow().get(&key).map(|r| try_deserialize_record(r).unwrap()).unwrap_or_default();
        cover("transactions");
        check_bool("tx:union_of_valid_deliveries", stored.contains(&tx1) && stored.contains(&tx2) && stored.len() == 2);
        check_bool("tx:forged_entry_never_stored", !stored.contains(&forged));
        check_bool("tx:entry_with_copied_signature_never_stored", !stored.contains(&copied_sig) && stored.iter().all(|t| t.verify()));
        check_bool("tx:foreign_owner_entry_never_stored", !stored.contains(&foreign));
    } else {
        // register of owner 3: two replicas with one op each (valid), one forged op; delivered in either order
        use ant_registers::RegisterOp;
        let base = the_register(3);
        let addr = *base.address();
        let key = NetworkAddress::from_register_address(addr).to_record_key();
        let mk = |entries: &[&[u8]], signer: u8| -> SignedRegister {
            let mut crdt = ant_registers::RegisterCrdt::new(addr);
            let mut sr = base.clone();
            for e in entries {
                let (_h, _a, op) = crdt.write(e.to_vec(), &StdBTreeSet::new()).expect("write");
                let rop = RegisterOp::new(addr, op, &sk(signer));
                sr.add_op(rop).expect("add op");
            }
            sr
        };
        let ra = mk(&[b"entry-a"], 3);
        let rb = mk(&[b"entry-b"], 5); // anyone can write
        let order = choice(2);
        let back_to_back = choice(2) == 1;
        c.net.inner.index_lag.set(true);
        note(format!("registers order={order} back_to_back={back_to_back}"));
        let rec = |r: &SignedRegister| Record { key: key.clone(), value: try_serialize_record(r, RecordKind::Register).unwrap().to_vec(), publisher: None, expires: None };
        let seq = if order == 0 { vec![rec(&ra), rec(&rb), rec(&ra)] } else { vec![rec(&rb), rec(&ra)] };
        for r in seq {
            let _ = block_on(c.node.store_replicated_in_record(r));
            if !back_to_back {
                c.net.complete_writes();
            }
        }
        c.net.complete_writes();
        let stored: SignedRegister = c.net.inner.store.borrow().get(&key).map(|r| try_deserialize_record(r).unwrap()).expect("stored");
        cover("registers");
        let mut expect = ra.clone();
        expect.merge(&rb).unwrap();
        if back_to_back && stored.ops() != expect.ops() {
            check_bool("reg:union_of_delivered_ops[second_delivery_before_first_write_indexed_overwrites]", false);
        } else {
            check_bool("reg:union_of_delivered_ops", stored.ops() == expect.ops());
        }
        check_bool("reg:stored_register_verifies", stored.verify().is_ok());
    }
}

fn c07_scratchpad_conc() {
    use std::future::Future;
    use std::task::{Context, Poll};
    let n: usize = std::env::var("C07_CONC").ok().and_then(|v| v.parse().ok()).unwrap_or(2);
    let c = new_ctx();
    let owner = sk(1);
    let c0 = Counter(SymU::fresh("stored_counter"));
    // every delivery is validly signed; the counters are unrelated to each other and to the stored one
    // (stale, equal and newer deliveries all occur)
    let counters: Vec<Counter> = (0..n).map(|i| Counter(SymU::fresh(&format!("delivered_counter_{}", (b'a' + i as u8) as char)))).collect();
    let old = pad_access::make(&owner, c0, b"old", Some(&owner));
    let key = old.network_address().to_record_key();
    c.net.hold(Record { key: key.clone(), value: try_serialize_record(&old, RecordKind::Scratchpad).unwrap().to_vec(), publisher: None, expires: None });
    c.net.inner.defer_puts.set(true);
    c.net.inner.yield_on_queries.set(true);
    let rec = |p: &Scratchpad| Record { key: key.clone(), value: try_serialize_record(p, RecordKind::Scratchpad).unwrap().to_vec(), publisher: None, expires: None };
    let pads: Vec<Scratchpad> = counters.iter().enumerate().map(|(i, ct)| pad_access::make(&owner, *ct, format!("version-{}", (b'a' + i as u8) as char).as_bytes(), Some(&owner))).collect();
    let mut futs: Vec<_> = pads.iter().map(|p| Box::pin(c.node.store_replicated_in_record(rec(p)))).collect();
    let w = noop_waker();
    let mut cx = Context::from_waker(&w);
    let mut done = vec![false; n];
    let mut trace = String::new();
    let mut guard = 0;
    loop {
        guard += 1;
        assert!(guard < 64 * n, "scheduler does not terminate");
        // enabled moves: one step of any unfinished delivery, or the oldest pending put takes effect (channel order)
        let mut moves: Vec<usize> = (0..n).filter(|i| !done[*i]).collect();
        if c.net.pending_put_count() > 0 {
            moves.push(n);
        }
        if moves.is_empty() {
            break;
        }
        let m = moves[choice(moves.len())];
        if m < n {
            trace.push((b'A' + m as u8) as char);
            if let Poll::Ready(_) = futs[m].as_mut().poll(&mut cx) {
                done[m] = true;
            }
        } else {
            trace.push('p');
            c.net.apply_pending_put(0);
        }
    }
    note(format!("schedule {trace} (A/B/.. = step of that delivery, p = a deferred put takes effect)"));
    let fin = stored_pad(&c, &key).expect("held");
    cover("settled");
    check("conc:counter_never_decreases", c0.0.sle(fin.count().0).0);
    // the stored version carries the highest counter among the stored one and the deliveries
    let fc = fin.count().0;
    let mut lost_t = symrt::SymBool::konst(false);
    let mut all_newer = symrt::SymBool::konst(true);
    let mut newer_count = 0usize;
    for ct in &counters {
        lost_t = lost_t.or(fc.slt(ct.0));
    }
    let lost = lost_t.get();
    if lost {
        // the known lost update needs two deliveries that are both newer than the stored version
        for ct in &counters {
            if c0.0.slt(ct.0).get() {
                newer_count += 1;
            } else {
                all_newer = symrt::SymBool::konst(false);
            }
        }
        let _ = all_newer;
        if newer_count >= 2 {
            check_bool("conc:stored_version_is_highest_delivered[check_then_put_not_serialised]", false);
        } else {
            check_bool("conc:stored_version_is_highest_delivered", false);
        }
    } else {
        check_bool("conc:stored_version_is_highest_delivered", true);
        if c0.0.slt(fc).get() { cover("replaced_by_a_delivery"); } else { cover("both_deliveries_stale"); }
    }
    check_bool("conc:stored_version_is_owner_signed", fin.is_valid() && fin.owner() == &owner.public_key());
}
