//! C13 harnesses over the transplanted data_payments.rs (child module).
use super::*;
use crate::runner::Harness;
use crate::shim::libp2p::identity::{ideal_sign, PublicKey as QuoteKey};
use crate::shim::{self, peer};
use symrt::{assume, check, check_bool, choice, cover, note, SymBool, SymU};

pub fn harnesses() -> Vec<Harness> {
    vec![
        Harness { name: "c13_expiry", property: "C13", f: c13_expiry, about: "has_expired for a symbolic quote timestamp against a symbolic clock: expired exactly when older than the validity window or dated in the future" },
        Harness { name: "c13_binding", property: "C13", f: c13_binding, about: "a quote verifies for a claimed node only with that node's key and a signature over exactly its content, timestamp, metrics and rewards address: every single-field alteration fails" },
        Harness { name: "c13_proof", property: "C13", f: c13_proof, about: "ProofOfPayment::verify_for: true iff the node is a payee and every quote verifies for its claimed payee" },
        Harness { name: "c13_historical", property: "C13", f: c13_historical, about: "historical_verify flags a later quote reporting less uptime or fewer payments than an earlier one (symbolic timestamps)" },
    ]
}

fn fresh_quote(key_no: u8, content: XorName, ts: SystemTime) -> PaymentQuote {
    let mut q = PaymentQuote {
        content,
        timestamp: ts,
        quoting_metrics: QuotingMetrics::default(),
        rewards_address: evmlib::utils::dummy_address(),
        pub_key: QuoteKey(key_no).encode_protobuf(),
        signature: vec![],
    };
    q.signature = ideal_sign(key_no, &q.bytes_for_sig());
    q
}

/// an EncodedPeerId whose bytes are not a valid PeerId (can be crafted on the wire only)
pub fn undecodable_peer_id() -> EncodedPeerId {
    EncodedPeerId(vec![0xff, 0x00, 0x01])
}

fn setup() {
    symrt::register_path_reset(shim::reset);
    shim::reset();
}

fn c13_expiry() {
    setup();
    let t = SystemTime::fresh("quote_timestamp_s");
    let now = shim::now_secs();
    let q = fresh_quote(1, XorName([1; 32]), t);
    let expired = q.has_expired();
    let in_future = now.slt(t.0);
    let too_old = SymU::konst(QUOTE_EXPIRATION_SECS).slt(now.wrapping_sub(t.0));
    let spec = in_future.or(in_future.not().and(too_old));
    cover(if expired { "expired" } else { "valid" });
    check("expiry:expired_iff_older_than_window_or_in_future", spec.iff(SymBool::konst(expired)).0);
    // the boundary itself: exactly QUOTE_EXPIRATION_SECS old is still valid, one second more is not
    if !expired {
        check("expiry:valid_quote_is_at_most_3600s_old", now.wrapping_sub(t.0).sle(SymU::konst(3600)).0);
    }
}

fn c13_binding() {
    setup();
    let t = SystemTime::fresh("quote_timestamp_s");
    let content = XorName([1; 32]);
    let mut q = fresh_quote(1, content, t);
    check_bool("binding:untouched_quote_verifies_for_its_signer", q.check_is_signed_by_claimed_peer(peer(1)));
    let what = choice(9);
    let mut claimed = peer(1);
    match what {
        0 => q.content = XorName([2; 32]),
        1 => {
            let t2 = SystemTime::fresh("altered_timestamp_s");
            assume(t2.0.seq(t.0).not().0);
            q.timestamp = t2;
        }
        2 => q.quoting_metrics.close_records_stored += 1,
        3 => q.quoting_metrics.max_records += 1,
        4 => q.quoting_metrics.received_payment_count += 1,
        5 => q.quoting_metrics.live_time += 1,
        6 => q.quoting_metrics.network_size = Some(7),
        7 => q.rewards_address = evmlib::common::Address::repeat_byte(0x44),
        _ => {
            // the key is swapped for another node's key, or the claimed identity is another node
            if choice(2) == 0 {
                q.pub_key = QuoteKey(2).encode_protobuf();
            } else {
                claimed = peer(2);
            }
        }
    }
    note(format!("altered: {}", ["content", "timestamp", "close_records_stored", "max_records", "received_payment_count", "live_time", "network_size", "rewards_address", "key / claimed identity"][what]));
    cover("altered");
    check_bool("binding:altered_quote_fails_verification", !q.check_is_signed_by_claimed_peer(claimed));
    // the quote hash changes with the key and signature bytes as well
    let h1 = q.hash();
    let mut q2 = q.clone();
    q2.signature.push(0);
    check_bool("binding:hash_covers_signature_bytes", h1 != q2.hash());
}

fn c13_proof() {
    setup();
    let t = SystemTime::fresh("quote_timestamp_s");
    let n = 1 + choice(2);
    let me = peer(1);
    let self_is_payee = choice(2) == 0;
    let mut quotes = vec![];
    let mut all_ok = true;
    for i in 0..n {
        let claimed_no: u8 = if i == 0 && self_is_payee { 1 } else { 2 + i as u8 };
        let mut q = fresh_quote(claimed_no, XorName([1; 32]), t);
        match choice(3) {
            0 => {}
            1 => {
                q.signature = ideal_sign(9, &q.bytes_for_sig());
                all_ok = false;
            }
            _ => {
                // genuinely signed, but by a node other than the claimed payee
                q = fresh_quote(8, XorName([1; 32]), t);
                all_ok = false;
            }
        }
        quotes.push((EncodedPeerId::from(peer(claimed_no)), q));
    }
    if choice(2) == 1 {
        // an extra entry whose claimed identity does not decode, carrying an unsigned quote in our name
        let mut forged = fresh_quote(1, XorName([1; 32]), t);
        forged.signature = vec![];
        quotes.push((undecodable_peer_id(), forged));
        all_ok = false;
    }
    if choice(2) == 1 {
        // a further entry for an already listed payee that re-uses the genuine key and signature
        // over altered signed fields
        let (id, genuine) = quotes[0].clone();
        let mut altered = genuine.clone();
        altered.quoting_metrics.received_payment_count += 7;
        quotes.push((id, altered));
        all_ok = false;
    }
    let proof = ProofOfPayment { peer_quotes: quotes };
    let got = proof.verify_for(me);
    note(format!("quotes={n} self_is_payee={self_is_payee} all_quotes_verify={all_ok}"));
    cover(if got { "verifies" } else { "fails" });
    check_bool("proof:verifies_iff_payee_and_all_quotes_verify", got == (self_is_payee && all_ok));
}

fn c13_historical() {
    setup();
    let t_old = SystemTime::fresh("old_quote_timestamp_s");
    let t_new = SystemTime::fresh("new_quote_timestamp_s");
    assume(t_old.0.slt(t_new.0).0);
    // the verifier's clock is unrelated to both timestamps: a quote may be dated ahead of it
    let now = shim::now_secs();
    if t_new.0.sle(now).get() { cover("both_in_the_past"); } else { cover("dated_ahead_of_the_verifier_clock"); }
    let mut old = fresh_quote(1, XorName([1; 32]), t_old);
    let mut new = fresh_quote(1, XorName([1; 32]), t_new);
    old.quoting_metrics.live_time = 100;
    old.quoting_metrics.received_payment_count = 5;
    // the later quote's figures relative to the earlier one (100 s uptime, 5 payments): each lower, equal or higher
    let lt = [99u64, 100, 101][choice(3)];
    let pc = [4usize, 5, 6][choice(3)];
    new.quoting_metrics.live_time = lt;
    new.quoting_metrics.received_payment_count = pc;
    let which = if lt < 100 { 0 } else if pc < 5 { 1 } else if lt == 100 && pc == 5 { 2 } else { 3 };
    // either argument order must give the same verdict
    let swap = choice(2) == 1;
    let verdict = if swap { new.historical_verify(&old) } else { old.historical_verify(&new) };
    note(format!("later quote: live_time={lt} received_payment_count={pc} ({}) swapped={swap}", ["less uptime", "fewer payments", "same figures", "grown figures"][which]));
    if which < 2 {
        cover("inconsistent");
        check_bool("historical:later_quote_with_less_uptime_or_payments_is_flagged", !verdict);
    } else if which == 2 {
        cover("consistent");
        check_bool("historical:consistent_quotes_accepted", verdict);
    } else {
        // grown figures: whether the growth is plausible against the elapsed time is the drift rule's call
        cover("grown");
    }
}
