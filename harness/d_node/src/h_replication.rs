//! C09 harness over the transplanted fetch_replication_keys_without_wait (child module).
use super::*;
use crate::put_validation::harness::{address_of, new_ctx, store_snapshot, unpaid_record, Kind, KINDS};
use crate::runner::Harness;
use crate::shim::peer;
use ant_protocol::error::Error as ProtocolError;
use bytes::Bytes;
use symrt::{check_bool, choice, cover, note};

pub fn harnesses() -> Vec<Harness> {
    vec![Harness { name: "c09_fetch_from_holder", property: "C09", f: c09_fetch_from_holder, about: "a node fetches an advertised key from the advertising holder: what the holder stores is accepted and kept byte-identical; content for another key or garbage is not stored; the network is asked only when the holder failed" }]
}

fn c09_fetch_from_holder() {
    let c = new_ctx();
    let kind = KINDS[choice(4)];
    let key = address_of(kind).to_record_key();
    let good = unpaid_record(kind, key.clone());
    // what a holder stores for another address of the same kind family (content does not belong under `key`)
    let other_kind = if kind == Kind::Chunk { Kind::Register } else { Kind::Chunk };
    let foreign_content = unpaid_record(other_kind, key.clone()).value;
    let holder = peer(1);
    let holder_says = choice(5);
    let reply = match holder_says {
        0 => Some(Response::Query(QueryResponse::GetReplicatedRecord(Ok((NetworkAddress::from_peer(holder), Bytes::from(good.value.clone())))))),
        1 => Some(Response::Query(QueryResponse::GetReplicatedRecord(Ok((NetworkAddress::from_peer(holder), Bytes::from(foreign_content.clone())))))),
        2 => Some(Response::Query(QueryResponse::GetReplicatedRecord(Ok((NetworkAddress::from_peer(holder), Bytes::from(vec![0xffu8, 0x00, 0x13])))))),
        3 => Some(Response::Query(QueryResponse::GetReplicatedRecord(Err(ProtocolError::ReplicatedRecordNotFound { holder: Box::new(NetworkAddress::from_peer(holder)), key: Box::new(NetworkAddress::from_record_key(&key)) })))),
        _ => None,
    };
    *c.net.inner.peer_reply.borrow_mut() = reply;
    let network_has_it = choice(2) == 1;
    if network_has_it {
        *c.net.inner.network_reply.borrow_mut() = Some(good.clone());
    }
    note(format!("{kind:?} holder: {} network_has_it={network_has_it}", ["the record", "content that belongs elsewhere", "garbage", "not found", "no answer"][holder_says]));
    let before = store_snapshot(&c);
    c.node.fetch_replication_keys_without_wait(vec![(holder, key.clone())]).expect("spawned");
    symrt::env::run_all_tasks();
    let after = store_snapshot(&c);
    cover("fetched");
    let asked_holder = c.net.inner.requests.borrow().iter().any(|(r, p)| *p == holder && matches!(r, Request::Query(Query::GetReplicatedRecord { key: k, .. }) if k.to_record_key() == key));
    check_bool("fetch:the_advertising_holder_is_asked_for_that_key", asked_holder && c.net.inner.requests.borrow().len() == 1);
    let stored = after.iter().find(|(k, _)| *k == key.to_vec()).map(|(_, v)| v.clone());
    let network_asked = !c.net.inner.network_reads.borrow().is_empty();
    match holder_says {
        0 => {
            cover("holder_had_it");
            check_bool("fetch:record_held_by_an_honest_holder_is_accepted", stored.is_some());
            if kind == Kind::Chunk {
                check_bool("fetch:immutable_data_is_kept_byte_identical", stored.as_ref() == Some(&good.value));
            }
            check_bool("fetch:network_not_asked_when_the_holder_answered", !network_asked);
        }
        1 | 2 => {
            cover("holder_sent_something_else");
            check_bool("fetch:content_that_does_not_belong_under_the_key_is_not_stored", after == before);
        }
        _ => {
            cover("holder_failed");
            check_bool("fetch:network_is_asked_when_the_holder_failed", network_asked);
            check_bool("fetch:stored_iff_the_network_had_it", stored.is_some() == network_has_it);
        }
    }
    // nothing is ever stored under another key
    check_bool("fetch:nothing_stored_under_another_key", after.iter().all(|(k, _)| *k == key.to_vec() || before.iter().any(|(bk, _)| bk == k)));
}
