//! C09 harness over the transplanted fetch_replication_keys_without_wait (child module).
use super::*;
use crate::put_validation::harness::{address_of, new_ctx, store_snapshot, unpaid_record, Kind, KINDS};
use crate::runner::Harness;
use crate::shim::peer;
use ant_protocol::error::Error as ProtocolError;
use bytes::Bytes;
use symrt::{check_bool, choice, cover, note};

pub fn harnesses() -> Vec<Harness> {
    vec![
        Harness { name: "c09_divergent_replica_fetched", property: "C09", f: c09_divergent_replica_fetched, about: "the node holds one version of a mutable record, a neighbour another: fetching the neighbour's version leaves the merge (union of register operations / of transactions, the scratchpad with the higher counter)" },
        Harness { name: "c09_fetch_from_holder", property: "C09", f: c09_fetch_from_holder, about: "a node fetches an advertised key from the advertising holder: what the holder stores is accepted and kept byte-identical; content for another key or garbage is not stored; the network is asked only when the holder failed" },
    ]
}

/// One replication step between two honest neighbours that hold different versions of a mutable record. Both run this
/// same code in the other direction, so "after the step the node holds merge(own, fetched)" for a commutative merge
/// is what makes the pair converge after one round each way.
fn c09_divergent_replica_fetched() {
    use crate::put_validation::harness::{sk, the_register, the_tx};
    use crate::scratchpad::access as pad_access;
    use crate::shim::Counter;
    use ant_protocol::storage::{try_deserialize_record, try_serialize_record, RecordKind};
    use ant_registers::{RegisterOp, SignedRegister};
    use std::collections::BTreeSet as StdBTreeSet;
    use symrt::env::block_on;
    use symrt::SymU;
    let c = new_ctx();
    let holder = peer(1);
    let kind = [Kind::Register, Kind::Transaction, Kind::Scratchpad][choice(3)];
    let rec = |key: &RecordKey, value: Vec<u8>| Record { key: key.clone(), value, publisher: None, expires: None };
    // (key, what the node holds, what the holder serves)
    let (key, own, theirs) = match kind {
        Kind::Register => {
            let base = the_register(3);
            let addr = *base.address();
            let key = NetworkAddress::from_register_address(addr).to_record_key();
            // the two replicas hold the same number of operations (n each), none shared
            let n = 1 + choice(2);
            let mk = |tag: u8, signer: u8| -> SignedRegister {
                let mut crdt = ant_registers::RegisterCrdt::new(addr);
                let mut sr = base.clone();
                for i in 0..n {
                    let (_h, _a, op) = crdt.write(vec![tag, i as u8], &StdBTreeSet::new()).expect("write");
                    sr.add_op(RegisterOp::new(addr, op, &sk(signer))).expect("add op");
                }
                sr
            };
            let (a, b) = (mk(0xa0, 3), mk(0xb0, 5));
            (key.clone(), rec(&key, try_serialize_record(&a, RecordKind::Register).unwrap().to_vec()), rec(&key, try_serialize_record(&b, RecordKind::Register).unwrap().to_vec()))
        }
        Kind::Transaction => {
            let (t1, t2) = (the_tx(2, 1, 2), the_tx(2, 2, 2));
            let key = NetworkAddress::from_transaction_address(t1.address()).to_record_key();
            (key.clone(), rec(&key, try_serialize_record(&vec![t1], RecordKind::Transaction).unwrap().to_vec()), rec(&key, try_serialize_record(&vec![t2], RecordKind::Transaction).unwrap().to_vec()))
        }
        _ => {
            let (ca, cb) = (Counter(SymU::fresh("own_counter")), Counter(SymU::fresh("their_counter")));
            let a = pad_access::make(&sk(1), ca, b"own", Some(&sk(1)));
            let b = pad_access::make(&sk(1), cb, b"theirs", Some(&sk(1)));
            let key = a.network_address().to_record_key();
            (key.clone(), rec(&key, try_serialize_record(&a, RecordKind::Scratchpad).unwrap().to_vec()), rec(&key, try_serialize_record(&b, RecordKind::Scratchpad).unwrap().to_vec()))
        }
    };
    note(format!("{kind:?}: the node holds one version, the advertising holder serves another"));
    // the node's own version arrived earlier and is settled
    let _ = block_on(c.node.store_replicated_in_record(own.clone()));
    c.net.complete_writes();
    check_bool("converge:setup_own_version_is_held", c.net.inner.store.borrow().get(&key).is_some());
    *c.net.inner.peer_reply.borrow_mut() = Some(Response::Query(QueryResponse::GetReplicatedRecord(Ok((NetworkAddress::from_peer(holder), Bytes::from(theirs.value.clone()))))));
    c.node.fetch_replication_keys_without_wait(vec![(holder, key.clone())]).expect("spawned");
    symrt::env::run_all_tasks();
    c.net.complete_writes();
    cover("fetched_divergent_version");
    let stored = c.net.inner.store.borrow().get(&key).cloned();
    let Some(stored) = stored else {
        check_bool("converge:record_still_held_after_the_fetch", false);
        return;
    };
    match kind {
        Kind::Register => {
            let got: SignedRegister = try_deserialize_record(&stored).expect("register");
            let a: SignedRegister = try_deserialize_record(&own).unwrap();
            let b: SignedRegister = try_deserialize_record(&theirs).unwrap();
            let mut expect = a.clone();
            expect.merge(&b).unwrap();
            check_bool("converge:register_holds_the_union_of_both_replicas", got.ops() == expect.ops());
        }
        Kind::Transaction => {
            let got: Vec<ant_protocol::storage::Transaction> = try_deserialize_record(&stored).expect("transactions");
            let a: Vec<ant_protocol::storage::Transaction> = try_deserialize_record(&own).unwrap();
            let b: Vec<ant_protocol::storage::Transaction> = try_deserialize_record(&theirs).unwrap();
            check_bool("converge:transaction_set_is_the_union_of_both_replicas", got.len() == 2 && got.contains(&a[0]) && got.contains(&b[0]));
        }
        _ => {
            let got: crate::scratchpad::Scratchpad = try_deserialize_record(&stored).expect("scratchpad");
            let a: crate::scratchpad::Scratchpad = try_deserialize_record(&own).unwrap();
            let b: crate::scratchpad::Scratchpad = try_deserialize_record(&theirs).unwrap();
            // the higher counter wins; on equal counters either may stay
            let (ca, cb, cg) = (a.count().0, b.count().0, got.count().0);
            symrt::check("converge:scratchpad_with_the_higher_counter_is_held", ca.sle(cg).and(cb.sle(cg)).0);
            check_bool("converge:held_scratchpad_is_validly_signed", got.is_valid());
        }
    }
}

fn c09_fetch_from_holder() {
    let c = new_ctx();
    let kind = KINDS[choice(4)];
    let key = address_of(kind).to_record_key();
    let good = unpaid_record(kind, key.clone());
    // what a holder stores for another address of the same kind family (content does not belong under `key`)
    let other_kind = if kind == Kind::Chunk { Kind::Register } else { Kind::Chunk };
    let foreign_content = unpaid_record(other_kind, key.clone()).value;
    let holder = peer(1);
    let holder_says = choice(5);
    let reply = match holder_says {
        0 => Some(Response::Query(QueryResponse::GetReplicatedRecord(Ok((NetworkAddress::from_peer(holder), Bytes::from(good.value.clone())))))),
        1 => Some(Response::Query(QueryResponse::GetReplicatedRecord(Ok((NetworkAddress::from_peer(holder), Bytes::from(foreign_content.clone())))))),
        2 => Some(Response::Query(QueryResponse::GetReplicatedRecord(Ok((NetworkAddress::from_peer(holder), Bytes::from(vec![0xffu8, 0x00, 0x13])))))),
        3 => Some(Response::Query(QueryResponse::GetReplicatedRecord(Err(ProtocolError::ReplicatedRecordNotFound { holder: Box::new(NetworkAddress::from_peer(holder)), key: Box::new(NetworkAddress::from_record_key(&key)) })))),
        _ => None,
    };
    *c.net.inner.peer_reply.borrow_mut() = reply;
    let network_has_it = choice(2) == 1;
    if network_has_it {
        *c.net.inner.network_reply.borrow_mut() = Some(good.clone());
    }
    note(format!("{kind:?} holder: {} network_has_it={network_has_it}", ["the record", "content that belongs elsewhere", "garbage", "not found", "no answer"][holder_says]));
    let before = store_snapshot(&c);
    c.node.fetch_replication_keys_without_wait(vec![(holder, key.clone())]).expect("spawned");
    symrt::env::run_all_tasks();
    let after = store_snapshot(&c);
    cover("fetched");
    let asked_holder = c.net.inner.requests.borrow().iter().any(|(r, p)| *p == holder && matches!(r, Request::Query(Query::GetReplicatedRecord { key: k, .. }) if k.to_record_key() == key));
    check_bool("fetch:the_advertising_holder_is_asked_for_that_key", asked_holder && c.net.inner.requests.borrow().len() == 1);
    let stored = after.iter().find(|(k, _)| *k == key.to_vec()).map(|(_, v)| v.clone());
    let network_asked = !c.net.inner.network_reads.borrow().is_empty();
    match holder_says {
        0 => {
            cover("holder_had_it");
            check_bool("fetch:record_held_by_an_honest_holder_is_accepted", stored.is_some());
            if kind == Kind::Chunk {
                check_bool("fetch:immutable_data_is_kept_byte_identical", stored.as_ref() == Some(&good.value));
            }
            check_bool("fetch:network_not_asked_when_the_holder_answered", !network_asked);
        }
        1 | 2 => {
            cover("holder_sent_something_else");
            check_bool("fetch:content_that_does_not_belong_under_the_key_is_not_stored", after == before);
        }
        _ => {
            cover("holder_failed");
            check_bool("fetch:network_is_asked_when_the_holder_failed", network_asked);
            check_bool("fetch:stored_iff_the_network_had_it", stored.is_some() == network_has_it);
        }
    }
    // nothing is ever stored under another key
    check_bool("fetch:nothing_stored_under_another_key", after.iter().all(|(k, _)| *k == key.to_vec() || before.iter().any(|(bk, _)| bk == k)));
}
