//! C05 harness over the transplanted Network::get_record_from_network (the client-facing read with its retry loop).
use crate::runner::Harness;
use crate::shim::retry::{self, Network};
use ant_networking::{GetRecordCfg, GetRecordError, NetworkError};
use ant_protocol::storage::{try_serialize_record, Chunk, RecordKind, RetryStrategy};
use ant_protocol::NetworkAddress;
use bytes::Bytes;
use libp2p::kad::{Quorum, Record};
use std::collections::HashSet;
use std::num::NonZeroUsize;
use symrt::env::block_on;
use symrt::{check_bool, choice, cover, note};

pub fn harnesses() -> Vec<Harness> {
    vec![Harness { name: "c05_client_retries", property: "C05", f: c05_client_retries, about: "the read as the caller sees it: up to 3 attempts, each answered by the driver with a value, NotEnoughCopies (carrying the record and a count), not found, time-out or a mismatch: a value is returned only if one single attempt produced it; otherwise the specific error of the last attempt" }]
}

fn c05_client_retries() {
    retry::reset();
    symrt::register_path_reset(retry::reset);
    let chunk = Chunk::new(Bytes::from(vec![7u8, 7, 7]));
    let other = Chunk::new(Bytes::from(vec![9u8, 9]));
    let key = NetworkAddress::from_chunk_address(*chunk.address()).to_record_key();
    let rec = |c: &Chunk| Record { key: key.clone(), value: try_serialize_record(c, RecordKind::Chunk).unwrap().to_vec(), publisher: None, expires: None };
    let attempts_allowed = [1usize, 2, 3][choice(3)];
    let strategy = match attempts_allowed {
        1 => [None, Some(RetryStrategy::None)][choice(2)],
        n => Some(RetryStrategy::N(NonZeroUsize::new(n).unwrap())),
    };
    let quorum = 3usize;
    let cfg = GetRecordCfg { get_quorum: Quorum::N(NonZeroUsize::new(quorum).unwrap()), retry_strategy: strategy, target_record: None, expected_holders: HashSet::new(), is_register: false };
    // the driver's answers (it has decided quorum and distinctness per query: C05's other harnesses)
    let net = Network::default();
    let mut outcomes: Vec<usize> = vec![];
    for _ in 0..attempts_allowed {
        let o = choice(6);
        outcomes.push(o);
        let got = 1 + choice(quorum - 1); // 1 .. quorum-1 copies
        let answer = match o {
            0 => Some(Ok(rec(&chunk))),
            1 => Some(Err(GetRecordError::NotEnoughCopies { record: rec(&chunk), expected: quorum, got })),
            2 => Some(Err(GetRecordError::RecordNotFound)),
            3 => Some(Err(GetRecordError::QueryTimeout)),
            4 => Some(Err(GetRecordError::RecordDoesNotMatch(rec(&other)))),
            _ => None, // the driver went away: the sender is dropped
        };
        net.script.borrow_mut().push_back(answer);
        if o == 0 || o == 5 {
            break; // nothing is asked after a value or a dropped channel
        }
    }
    note(format!("attempts allowed {attempts_allowed}; driver answers {:?} (0 value, 1 not enough copies, 2 not found, 3 time-out, 4 mismatch, 5 channel dropped)", outcomes));
    let res = block_on(net.get_record_from_network(key.clone(), &cfg));
    let asked = net.queries.get();
    cover("read_done");
    check_bool("retries:no_more_queries_than_the_strategy_allows", asked <= attempts_allowed);
    match res {
        Ok(r) => {
            cover("value");
            // a value comes from one attempt whose query produced it -- never from adding up what several failed
            // attempts saw (those counts may be the same few peers every time)
            let some_attempt_succeeded = outcomes.iter().take(asked).any(|o| *o == 0);
            check_bool("retries:value_only_if_a_single_attempt_reached_the_quorum", some_attempt_succeeded);
            check_bool("retries:value_is_the_one_that_attempt_produced", r.value == rec(&chunk).value);
        }
        Err(e) => {
            cover("error");
            check_bool("retries:error_only_if_no_attempt_produced_a_value", !outcomes.iter().take(asked).any(|o| *o == 0));
            // the error names what happened last
            let last = outcomes[asked.min(outcomes.len()) - 1];
            let specific = match (&e, last) {
                (NetworkError::GetRecordError(GetRecordError::NotEnoughCopies { .. }), 1) => true,
                (NetworkError::GetRecordError(GetRecordError::RecordNotFound), 2) => true,
                (NetworkError::GetRecordError(GetRecordError::QueryTimeout), 3) => true,
                (NetworkError::GetRecordError(GetRecordError::RecordDoesNotMatch(_)), 4) => true,
                (NetworkError::InternalMsgChannelDropped, 5) => true,
                _ => false,
            };
            check_bool("retries:error_is_the_specific_error_of_the_last_attempt", specific);
            if last != 5 {
                check_bool("retries:every_allowed_attempt_is_made_before_giving_up", asked == attempts_allowed);
            }
        }
    }
}
