//! harness access to the transplanted Scratchpad's private fields
use super::*;

/// a scratchpad owned by `sk` with the given (symbolic) counter and payload; signed by `signer`
/// (the owner for a genuine pad, another key for a forgery), or unsigned
pub fn make(owner: &SecretKey, counter: crate::shim::Counter, payload: &[u8], signer: Option<&SecretKey>) -> Scratchpad {
    let mut p = Scratchpad::new(owner.public_key(), 0);
    p.counter = counter;
    p.encrypted_data = Bytes::from(payload.to_vec());
    if let Some(sk) = signer {
        let mut bytes_to_sign = p.counter.to_be_bytes().to_vec();
        bytes_to_sign.extend(p.encrypted_data_hash().to_vec());
        p.signature = Some(sk.sign(&bytes_to_sign));
    }
    p
}
pub fn payload_of(p: &Scratchpad) -> Vec<u8> {
    p.encrypted_data.to_vec()
}
