//! d_node: transplanted ant-node/src/put_validation.rs (+ error.rs), ant-evm/src/data_payments.rs and
//! ant-protocol/src/storage/scratchpad.rs executed under symrt.
#![allow(dead_code, unused_imports, unused_variables, unused_mut, clippy::all)]
// path-qualified uses (`tracing::warn!(..)`) in transplanted code resolve to no-op macros
extern crate noop_tracing as tracing;

macro_rules! trace { ($($t:tt)*) => { if false { let _ = format!($($t)*); } } }
macro_rules! debug { ($($t:tt)*) => { if false { let _ = format!($($t)*); } } }
macro_rules! info { ($($t:tt)*) => { if false { let _ = format!($($t)*); } } }
macro_rules! warn { ($($t:tt)*) => { if false { let _ = format!($($t)*); } } }
macro_rules! error { ($($t:tt)*) => { if false { let _ = format!($($t)*); } } }

pub mod shim;
pub use ant_evm::EvmError;
pub use shim::node;
pub use shim::{Marker, NodeEvent};
#[path = "gen/data_payments.rs"]
pub mod data_payments;
#[path = "gen/scratchpad.rs"]
pub mod scratchpad;
#[path = "gen/node_error.rs"]
pub mod error;
pub use error::{Error, Result};
#[path = "gen/payment_vault.rs"]
pub mod payment_vault;
#[path = "gen/node_quote.rs"]
pub mod node_quote;
#[path = "gen/replication_items.rs"]
pub mod replication_items;
#[path = "gen/put_validation.rs"]
pub mod put_validation;
#[path = "gen/split_items.rs"]
pub mod split_items;
#[path = "gen/client_items.rs"]
pub mod client_items;
mod runner;
mod h_retry;
mod h_codec;

fn main() {
    let mut v = put_validation::harness::harnesses();
    v.extend(data_payments::harness::harnesses());
    v.extend(client_items::harness::harnesses());
    v.extend(node_quote::harness::harnesses());
    v.extend(replication_items::harness::harnesses());
    v.extend(h_retry::harnesses());
    v.extend(h_codec::harnesses());
    runner::main_dispatch(v);
}
