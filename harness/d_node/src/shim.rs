//! Shim environment for the transplanted ant-node put_validation.rs, ant-evm data_payments.rs and
//! ant-protocol scratchpad.rs.  Real: libp2p Record/RecordKey/PeerId, ant-protocol addresses, header
//! and record (de)serialisation (rmp), Chunk, Transaction, ant-registers SignedRegister, blsttc keys
//! and signatures, ant-networking's NetworkError, evmlib hashing.  Shimmed: wall clock (symbolic
//! seconds), quote signatures (ideal scheme over libp2p-identity's API), scratchpad counter
//! (symbolic 64-bit), Node/Network handles (model store with deferred puts), payment contract.
#![allow(dead_code)]
use std::cell::{Cell, RefCell};
use std::collections::VecDeque;
use std::rc::Rc;
use symrt::det::HashMap;
use symrt::{assume, SymU};

use ::libp2p::kad::{Record, RecordKey};
use ::libp2p::PeerId;

// ------------------------------------------------------------------ symbolic time (seconds)

#[derive(Clone, Copy, Debug, PartialEq, Eq, PartialOrd, Ord)]
pub struct SystemTime(pub SymU<64>);
#[derive(Clone, Copy, Debug)]
pub struct SymDur(pub SymU<64>);
#[derive(Clone, Copy, Debug)]
pub struct SymSecs(pub SymU<64>);
/// as std: carries how far the second time lies after the first
#[derive(Debug)]
pub struct SystemTimeError(pub SymU<64>);
impl SystemTimeError {
    pub fn duration(&self) -> SymDur {
        SymDur(self.0)
    }
}

thread_local! {
    static NOW: Cell<Option<SymU<64>>> = Cell::new(None);
}
pub fn reset_time() {
    NOW.with(|n| n.set(None));
}
/// the node's wall clock: one symbolic instant per harness run (seconds since the epoch, < 2^40)
pub fn now_secs() -> SymU<64> {
    if let Some(n) = NOW.with(|n| n.get()) {
        return n;
    }
    let n = SymU::<64>::fresh("wall_clock_now_s");
    assume(n.slt(SymU::konst(1u64 << 40)).0);
    assume(SymU::konst(1u64 << 20).slt(n).0);
    NOW.with(|c| c.set(Some(n)));
    n
}
impl SystemTime {
    pub const UNIX_EPOCH: SystemTime = SystemTime(SymU(u32::MAX));
    pub fn now() -> Self {
        SystemTime(now_secs())
    }
    pub fn fresh(name: &str) -> Self {
        let t = SymU::<64>::fresh(name);
        assume(t.slt(SymU::konst(1u64 << 40)).0);
        SystemTime(t)
    }
    fn secs(&self) -> SymU<64> {
        if self.0 .0 == u32::MAX {
            SymU::konst(0)
        } else {
            self.0
        }
    }
    /// Err when `earlier` is later than self (as std)
    pub fn duration_since(&self, earlier: SystemTime) -> Result<SymDur, SystemTimeError> {
        if self.secs() < earlier.secs() {
            Err(SystemTimeError(earlier.secs().wrapping_sub(self.secs())))
        } else {
            Ok(SymDur(self.secs().wrapping_sub(earlier.secs())))
        }
    }
    pub fn elapsed(&self) -> Result<SymDur, SystemTimeError> {
        SystemTime::now().duration_since(*self)
    }
}
impl SymDur {
    pub fn as_secs(&self) -> SymSecs {
        SymSecs(self.0)
    }
}
// further std API of SystemTime / Duration that a change to the transplanted sources may start to use
// (whole seconds, as everywhere in this model)
impl SystemTime {
    pub fn checked_add(&self, d: ::std::time::Duration) -> Option<SystemTime> {
        let r = self.secs().wrapping_add(SymU::konst(d.as_secs()));
        if r.slt(self.secs()).get() {
            None
        } else {
            Some(SystemTime(r))
        }
    }
    pub fn checked_sub(&self, d: ::std::time::Duration) -> Option<SystemTime> {
        if self.secs().slt(SymU::konst(d.as_secs())).get() {
            None
        } else {
            Some(SystemTime(self.secs().wrapping_sub(SymU::konst(d.as_secs()))))
        }
    }
}
impl std::ops::Add<::std::time::Duration> for SystemTime {
    type Output = SystemTime;
    fn add(self, d: ::std::time::Duration) -> SystemTime {
        self.checked_add(d).expect("overflow when adding duration to instant")
    }
}
impl std::ops::Sub<::std::time::Duration> for SystemTime {
    type Output = SystemTime;
    fn sub(self, d: ::std::time::Duration) -> SystemTime {
        self.checked_sub(d).expect("overflow when subtracting duration from instant")
    }
}
impl PartialEq<::std::time::Duration> for SymDur {
    fn eq(&self, o: &::std::time::Duration) -> bool {
        self.0 == SymU::konst(o.as_secs())
    }
}
impl PartialOrd<::std::time::Duration> for SymDur {
    fn partial_cmp(&self, o: &::std::time::Duration) -> Option<std::cmp::Ordering> {
        Some(self.0.cmp(&SymU::konst(o.as_secs())))
    }
}
impl PartialEq for SymDur {
    fn eq(&self, o: &SymDur) -> bool {
        self.0 == o.0
    }
}
impl PartialOrd for SymDur {
    fn partial_cmp(&self, o: &SymDur) -> Option<std::cmp::Ordering> {
        Some(self.0.cmp(&o.0))
    }
}
impl PartialEq for SymSecs {
    fn eq(&self, o: &SymSecs) -> bool {
        self.0 == o.0
    }
}
impl PartialOrd for SymSecs {
    fn partial_cmp(&self, o: &SymSecs) -> Option<std::cmp::Ordering> {
        Some(self.0.cmp(&o.0))
    }
}
impl std::ops::Sub for SymSecs {
    type Output = SymSecs;
    fn sub(self, o: SymSecs) -> SymSecs {
        if self.0.slt(o.0).get() {
            panic!("attempt to subtract with overflow");
        }
        SymSecs(self.0.wrapping_sub(o.0))
    }
}
impl std::ops::Sub<u64> for SymSecs {
    type Output = SymSecs;
    fn sub(self, o: u64) -> SymSecs {
        self - SymSecs(SymU::konst(o))
    }
}
impl SymSecs {
    pub fn checked_sub(self, o: SymSecs) -> Option<SymSecs> {
        if self.0.slt(o.0).get() {
            None
        } else {
            Some(SymSecs(self.0.wrapping_sub(o.0)))
        }
    }
    pub fn abs_diff(self, o: SymSecs) -> SymSecs {
        SymSecs(SymU::select(self.0.slt(o.0), o.0.wrapping_sub(self.0), self.0.wrapping_sub(o.0)))
    }
}
impl SymSecs {
    /// an injective stand-in for the 8 little-endian bytes: tag + the term's identity on this path
    pub fn to_le_bytes(&self) -> [u8; 8] {
        placeholder8(0xF5, self.0)
    }
    pub fn saturating_sub(self, o: SymSecs) -> SymSecs {
        SymSecs(SymU::select(self.0.slt(o.0), SymU::konst(0), self.0.wrapping_sub(o.0)))
    }
}
impl std::ops::Add<u64> for SymSecs {
    type Output = SymSecs;
    fn add(self, o: u64) -> SymSecs {
        SymSecs(self.0.wrapping_add(SymU::konst(o)))
    }
}
impl PartialEq<u64> for SymSecs {
    fn eq(&self, o: &u64) -> bool {
        self.0 == SymU::konst(*o)
    }
}
impl PartialOrd<u64> for SymSecs {
    fn partial_cmp(&self, o: &u64) -> Option<std::cmp::Ordering> {
        Some(self.0.cmp(&SymU::konst(*o)))
    }
    fn gt(&self, o: &u64) -> bool {
        self.0 > SymU::konst(*o)
    }
    fn lt(&self, o: &u64) -> bool {
        self.0 < SymU::konst(*o)
    }
}
impl PartialEq<SymSecs> for u64 {
    fn eq(&self, o: &SymSecs) -> bool {
        SymU::konst(*self) == o.0
    }
}
impl PartialOrd<SymSecs> for u64 {
    fn partial_cmp(&self, o: &SymSecs) -> Option<std::cmp::Ordering> {
        Some(SymU::konst(*self).cmp(&o.0))
    }
    fn gt(&self, o: &SymSecs) -> bool {
        SymU::konst(*self) > o.0
    }
}
fn placeholder8(tag: u8, t: SymU<64>) -> [u8; 8] {
    if let Some(c) = t.as_const() {
        let v: u64 = c.try_into().unwrap_or(u64::MAX);
        return v.to_le_bytes();
    }
    let id = t.0.to_le_bytes();
    [tag, id[0], id[1], id[2], id[3], tag, tag, tag]
}
impl serde::Serialize for SystemTime {
    fn serialize<S: serde::Serializer>(&self, s: S) -> Result<S::Ok, S::Error> {
        // the term's identity on this path (stable under re-execution); decoded again by Deserialize
        s.serialize_u32(self.0 .0)
    }
}
impl<'de> serde::Deserialize<'de> for SystemTime {
    fn deserialize<D: serde::Deserializer<'de>>(d: D) -> Result<Self, D::Error> {
        let v = u32::deserialize(d)?;
        Ok(SystemTime(SymU(v)))
    }
}

// ------------------------------------------------------------------ symbolic scratchpad counter

#[derive(Clone, Copy, Debug, PartialEq, Eq, PartialOrd, Ord)]
pub struct Counter(pub SymU<64>);
impl Counter {
    pub fn zero() -> Self {
        Counter(SymU::konst(0))
    }
    pub fn max_value() -> Self {
        Counter(SymU::konst(u64::MAX))
    }
    pub fn to_be_bytes(&self) -> [u8; 8] {
        let mut b = placeholder8(0xC7, self.0);
        if self.0.as_const().is_some() {
            b.reverse();
        }
        b
    }
}
impl std::ops::AddAssign<u64> for Counter {
    fn add_assign(&mut self, o: u64) {
        self.0 = self.0.wrapping_add(SymU::konst(o));
    }
}
impl std::fmt::Display for Counter {
    fn fmt(&self, f: &mut std::fmt::Formatter<'_>) -> std::fmt::Result {
        write!(f, "counter")
    }
}
impl std::hash::Hash for Counter {
    fn hash<H: std::hash::Hasher>(&self, h: &mut H) {
        self.0 .0.hash(h)
    }
}
impl serde::Serialize for Counter {
    fn serialize<S: serde::Serializer>(&self, s: S) -> Result<S::Ok, S::Error> {
        match self.0.as_const() {
            // constants are stored by value + 2^32 so that they do not collide with term identities
            Some(c) => s.serialize_u64(u64::try_from(c).unwrap_or(0) + (1u64 << 32)),
            None => s.serialize_u64(self.0 .0 as u64),
        }
    }
}
impl<'de> serde::Deserialize<'de> for Counter {
    fn deserialize<D: serde::Deserializer<'de>>(d: D) -> Result<Self, D::Error> {
        let v = u64::deserialize(d)?;
        if v >= (1u64 << 32) {
            Ok(Counter(SymU::konst(v - (1u64 << 32))))
        } else {
            Ok(Counter(SymU(v as u32)))
        }
    }
}

// ------------------------------------------------------------------ ideal signature scheme (libp2p-identity API)

pub mod libp2p {
    pub use ::libp2p::*;
    pub mod identity {
        pub use ::libp2p::identity::{ParseError, PeerId};
        use sha2::{Digest, Sha256};
        /// key number i stands for the node `peer(i)`; its protobuf encoding is b"PK" + i
        #[derive(Clone, Debug, PartialEq, Eq)]
        pub struct PublicKey(pub u8);
        #[derive(Debug)]
        pub struct DecodingError;
        impl PublicKey {
            pub fn try_decode_protobuf(b: &[u8]) -> Result<PublicKey, DecodingError> {
                if b.len() == 3 && b[0] == b'P' && b[1] == b'K' {
                    Ok(PublicKey(b[2]))
                } else {
                    Err(DecodingError)
                }
            }
            pub fn encode_protobuf(&self) -> Vec<u8> {
                vec![b'P', b'K', self.0]
            }
            /// ideal: the only valid signature of `msg` under key i is SIG(i, msg)
            pub fn verify(&self, msg: &[u8], sig: &[u8]) -> bool {
                sig == ideal_sign(self.0, msg).as_slice()
            }
        }
        pub fn ideal_sign(key: u8, msg: &[u8]) -> Vec<u8> {
            let mut h = Sha256::new();
            h.update([b'S', b'I', b'G', key]);
            h.update(msg);
            h.finalize().to_vec()
        }
        impl From<PublicKey> for ::libp2p::PeerId {
            fn from(k: PublicKey) -> Self {
                crate::shim::peer(k.0)
            }
        }
    }
}

pub fn peer(i: u8) -> PeerId {
    PeerId::from_bytes(&[0x00, 0x06, b'p', b'e', b'e', b'r', 0, i]).expect("identity multihash")
}

pub mod std {
    pub use ::std::*;
    pub mod time {
        pub use super::super::SystemTime;
        pub use ::std::time::Duration;
    }
}

// ------------------------------------------------------------------ crate module trees

pub mod ant_protocol {
    pub use ::ant_protocol::*;
    pub use bytes::Bytes;
    pub mod error {
        pub use ::ant_protocol::error::*;
    }
    pub mod storage {
        pub use crate::scratchpad::Scratchpad;
        pub use ::ant_protocol::storage::*;
    }
}
pub mod ant_networking {
    pub use super::Network;
    pub use ::ant_networking::{GetRecordCfg, GetRecordError, NetworkError};
}

/// model of the client's handle on the network: whatever an adversarial or faulty set of holders may return
pub mod client {
    use super::*;
    pub type ChunkAddr = xor_name::XorName;
    pub type VaultSecretKey = bls::SecretKey;
    #[derive(Debug)]
    pub struct SelfEncryptionError;
    impl std::fmt::Display for SelfEncryptionError {
        fn fmt(&self, f: &mut std::fmt::Formatter<'_>) -> std::fmt::Result {
            write!(f, "self encryption")
        }
    }
    impl std::error::Error for SelfEncryptionError {}
    pub struct ClientNet {
        pub reply: RefCell<Option<Result<Record, ::ant_networking::NetworkError>>>,
        pub asked: RefCell<Vec<RecordKey>>,
    }
    impl ClientNet {
        pub async fn get_record_from_network(&self, key: RecordKey, _cfg: &::ant_networking::GetRecordCfg) -> Result<Record, ::ant_networking::NetworkError> {
            self.asked.borrow_mut().push(key.clone());
            let reply = self.reply.borrow_mut().take().expect("one reply per read");
            // as Network::get_record_from_network (no retries): a split reply first goes through the network layer's
            // own resolution (transplanted handle_split_record_error); only what that leaves unresolved reaches the client
            if let Err(::ant_networking::NetworkError::GetRecordError(::ant_networking::GetRecordError::SplitRecord { result_map })) = &reply {
                if let Some(record) = crate::split_items::Network::handle_split_record_error(result_map, &key)? {
                    return Ok(record);
                }
            }
            reply
        }
    }
    pub struct Client {
        pub network: ClientNet,
    }
}
pub mod ant_evm {
    pub use crate::data_payments::{EncodedPeerId, PaymentQuote, ProofOfPayment, QUOTE_EXPIRATION_SECS};
    pub use ::ant_evm::*;
    pub mod payment_vault {
        /// evmlib's real verify_data_payment (transplanted), over the model contract handle in shim::vault
        pub use crate::payment_vault::verify_data_payment;
    }
}

/// model of the payment contract handle behind evmlib's PaymentVaultHandler: for every entry it is asked about,
/// the harness decides whether the chain says "paid" (isValid); the results come back in the order asked, as the
/// contract's fixed array of three (unused slots are neutral: valid, zero hash, nothing paid)
pub mod vault {
    use evmlib::common::{Address, Amount, QuoteHash};
    use evmlib::quoting_metrics::QuotingMetrics;
    pub fn http_provider<U>(_url: U) {}
    pub mod error {
        #[derive(Debug, thiserror::Error)]
        pub enum Error {
            #[error("Payment is invalid.")]
            PaymentInvalid,
            #[error("Payment verification length must be 3.")]
            PaymentVerificationLengthInvalid,
            #[error("rpc failure")]
            Rpc,
        }
    }
    pub mod interface {
        #[allow(non_snake_case)]
        pub mod IPaymentVault {
            use super::super::*;
            #[allow(non_snake_case)]
            #[derive(Clone, Debug)]
            pub struct PaymentVerification {
                pub metrics: QuotingMetrics,
                pub rewardsAddress: Address,
                pub quoteHash: QuoteHash,
            }
            #[allow(non_snake_case)]
            #[derive(Clone, Debug)]
            pub struct PaymentVerificationResult {
                pub quoteHash: QuoteHash,
                pub amountPaid: Amount,
                pub isValid: bool,
            }
            impl From<(QuoteHash, QuotingMetrics, Address)> for PaymentVerification {
                fn from(v: (QuoteHash, QuotingMetrics, Address)) -> Self {
                    PaymentVerification { metrics: v.1, rewardsAddress: v.2, quoteHash: v.0 }
                }
            }
        }
    }
    pub struct PaymentVaultHandler;
    impl PaymentVaultHandler {
        pub fn new<A, P>(_address: A, _provider: P) -> Self {
            PaymentVaultHandler
        }
        pub async fn verify_payment<I: IntoIterator<Item: Into<interface::IPaymentVault::PaymentVerification>>>(
            &self,
            payment_verifications: I,
        ) -> Result<[interface::IPaymentVault::PaymentVerificationResult; 3], error::Error> {
            use interface::IPaymentVault::{PaymentVerification, PaymentVerificationResult};
            let asked: Vec<PaymentVerification> = payment_verifications.into_iter().map(|v| v.into()).collect();
            crate::shim::CONTRACT.with(|c| {
                let mut c = c.borrow_mut();
                c.calls += 1;
                c.last_payment = asked.len();
                if c.rpc_fails {
                    return Err(error::Error::Rpc);
                }
                if asked.len() > 3 {
                    return Err(error::Error::PaymentVerificationLengthInvalid);
                }
                let neutral = PaymentVerificationResult { quoteHash: QuoteHash::default(), amountPaid: Amount::ZERO, isValid: true };
                let mut out = [neutral.clone(), neutral.clone(), neutral];
                for (i, a) in asked.iter().enumerate() {
                    let paid = !c.unpaid.contains(&i);
                    out[i] = PaymentVerificationResult { quoteHash: a.quoteHash, amountPaid: if paid { Amount::from(1000u64) } else { Amount::ZERO }, isValid: paid };
                }
                Ok(out)
            })
        }
    }
}

#[derive(Default)]
pub struct Contract {
    /// positions (in the order asked) that the chain reports as not paid
    pub unpaid: Vec<usize>,
    pub rpc_fails: bool,
    pub calls: usize,
    pub last_owned: usize,
    pub last_payment: usize,
}
thread_local! {
    pub static CONTRACT: RefCell<Contract> = RefCell::new(Contract::default());
}

// ------------------------------------------------------------------ Node / Network model

#[derive(Debug, Clone)]
pub enum NodeEvent {
    ChunkStored(::ant_protocol::storage::ChunkAddress),
    RewardReceived(::ant_evm::AttoTokens, ::ant_protocol::NetworkAddress),
}
#[derive(Clone)]
pub struct EventsChannel;
impl EventsChannel {
    pub fn broadcast(&self, _e: NodeEvent) {}
}

/// ant-node's log markers: only the variants put_validation.rs constructs
#[derive(Debug)]
pub enum Marker<'a> {
    ValidPaidChunkPutFromClient(&'a ::ant_protocol::PrettyPrintRecordKey<'a>),
    ValidScratchpadRecordPutFromClient(&'a ::ant_protocol::PrettyPrintRecordKey<'a>),
    ValidTransactionPutFromClient(&'a ::ant_protocol::PrettyPrintRecordKey<'a>),
    ValidPaidRegisterPutFromClient(&'a ::ant_protocol::PrettyPrintRecordKey<'a>),
    ValidChunkRecordPutFromNetwork(&'a ::ant_protocol::PrettyPrintRecordKey<'a>),
    ValidScratchpadRecordPutFromNetwork(&'a ::ant_protocol::PrettyPrintRecordKey<'a>),
    ValidRegisterRecordPutFromNetwork(&'a ::ant_protocol::PrettyPrintRecordKey<'a>),
    ValidTransactionRecordPutFromNetwork(&'a ::ant_protocol::PrettyPrintRecordKey<'a>),
}
impl<'a> Marker<'a> {
    pub fn log(&self) {}
}

pub struct NetInner {
    pub self_id: PeerId,
    /// what get_local_record sees (the record store answers from its cache as soon as a put was handled)
    pub store: RefCell<HashMap<RecordKey, Record>>,
    /// what is_record_key_present_locally sees (the index is updated only when the disk write completed)
    pub index: RefCell<Vec<RecordKey>>,
    pub unindexed: RefCell<Vec<RecordKey>>,
    pub index_lag: Cell<bool>,
    pub pending_puts: RefCell<VecDeque<Record>>,
    pub defer_puts: Cell<bool>,
    pub yield_on_queries: Cell<bool>,
    pub close_peers: RefCell<Vec<PeerId>>,
    pub payments_notified: Cell<usize>,
    pub fetch_completed: RefCell<Vec<RecordKey>>,
    pub put_count: Cell<usize>,
    /// quotes of other nodes handed down for comparison with the collected history
    pub handed_to_history_check: RefCell<Vec<(PeerId, crate::data_payments::PaymentQuote)>>,
    /// request/response with one peer: what the peer will answer (None: the request itself fails), and what was asked
    pub peer_reply: RefCell<Option<::ant_protocol::messages::Response>>,
    pub requests: RefCell<Vec<(::ant_protocol::messages::Request, PeerId)>>,
    /// a read through the network (any holders): scripted outcome, and the keys asked for
    pub network_reply: RefCell<Option<Record>>,
    pub network_reads: RefCell<Vec<RecordKey>>,
}
#[derive(Clone)]
pub struct Network {
    pub inner: Rc<NetInner>,
}
type NResult<T> = Result<T, ::ant_networking::NetworkError>;
impl Network {
    pub fn new(self_id: PeerId) -> Self {
        Network {
            inner: Rc::new(NetInner {
                self_id,
                store: RefCell::new(HashMap::new()),
                index: RefCell::new(vec![]),
                unindexed: RefCell::new(vec![]),
                index_lag: Cell::new(false),
                pending_puts: RefCell::new(VecDeque::new()),
                defer_puts: Cell::new(false),
                yield_on_queries: Cell::new(false),
                close_peers: RefCell::new(vec![]),
                payments_notified: Cell::new(0),
                fetch_completed: RefCell::new(vec![]),
                put_count: Cell::new(0),
                handed_to_history_check: RefCell::new(vec![]),
                peer_reply: RefCell::new(None),
                requests: RefCell::new(vec![]),
                network_reply: RefCell::new(None),
                network_reads: RefCell::new(vec![]),
            }),
        }
    }
    pub fn peer_id(&self) -> PeerId {
        self.inner.self_id
    }
    /// the node's keypair in the ideal scheme: key number = the last byte of its peer id
    fn key_no(&self) -> u8 {
        *self.inner.self_id.to_bytes().last().unwrap()
    }
    pub fn sign(&self, msg: &[u8]) -> NResult<Vec<u8>> {
        Ok(libp2p::identity::ideal_sign(self.key_no(), msg))
    }
    pub fn verify(&self, msg: &[u8], sig: &[u8]) -> bool {
        libp2p::identity::PublicKey(self.key_no()).verify(msg, sig)
    }
    pub fn get_pub_key(&self) -> Vec<u8> {
        libp2p::identity::PublicKey(self.key_no()).encode_protobuf()
    }
    pub async fn send_request(&self, req: ::ant_protocol::messages::Request, peer: PeerId) -> NResult<::ant_protocol::messages::Response> {
        self.inner.requests.borrow_mut().push((req, peer));
        self.round_trip(|i| i.peer_reply.borrow_mut().take()).await.ok_or(::ant_networking::NetworkError::InternalMsgChannelDropped)
    }
    pub async fn get_record_from_network(&self, key: RecordKey, _cfg: &::ant_networking::GetRecordCfg) -> NResult<Record> {
        self.inner.network_reads.borrow_mut().push(key);
        self.round_trip(|i| i.network_reply.borrow_mut().take()).await.ok_or(::ant_networking::NetworkError::GetRecordError(::ant_networking::GetRecordError::RecordNotFound))
    }
    pub fn historical_verify_quotes(&self, quotes: Vec<(PeerId, crate::data_payments::PaymentQuote)>) {
        self.inner.handed_to_history_check.borrow_mut().extend(quotes);
    }
    async fn round_trip<R>(&self, f: impl FnOnce(&NetInner) -> R) -> R {
        // a query is a request/response through the swarm driver's channel: its effect (the read)
        // happens at some point between the call and the resumption of the caller
        if self.inner.yield_on_queries.get() {
            symrt::env::yield_now().await;
        }
        let r = f(&self.inner);
        if self.inner.yield_on_queries.get() {
            symrt::env::yield_now().await;
        }
        r
    }
    pub async fn is_record_key_present_locally(&self, key: &RecordKey) -> NResult<bool> {
        let k = key.clone();
        Ok(self.round_trip(move |i| i.index.borrow().contains(&k)).await)
    }
    pub async fn get_local_record(&self, key: &RecordKey) -> NResult<Option<Record>> {
        let k = key.clone();
        Ok(self.round_trip(move |i| i.store.borrow().get(&k).cloned()).await)
    }
    pub async fn get_closest_k_value_local_peers(&self) -> NResult<Vec<PeerId>> {
        Ok(self.round_trip(|i| i.close_peers.borrow().clone()).await)
    }
    /// fire-and-forget through a spawned sender task in the real Network: the effect is deferred
    pub fn put_local_record(&self, record: Record) {
        self.inner.put_count.set(self.inner.put_count.get() + 1);
        if self.inner.defer_puts.get() {
            self.inner.pending_puts.borrow_mut().push_back(record);
        } else {
            self.apply(record);
        }
    }
    fn apply(&self, record: Record) {
        let k = record.key.clone();
        self.inner.store.borrow_mut().insert(k.clone(), record);
        if self.inner.index_lag.get() {
            self.inner.unindexed.borrow_mut().push(k);
        } else if !self.inner.index.borrow().contains(&k) {
            self.inner.index.borrow_mut().push(k);
        }
    }
    /// a record the node holds already (written and indexed)
    pub fn hold(&self, record: Record) {
        let k = record.key.clone();
        self.inner.store.borrow_mut().insert(k.clone(), record);
        if !self.inner.index.borrow().contains(&k) {
            self.inner.index.borrow_mut().push(k);
        }
    }
    /// the disk writes of all handled puts complete: their keys enter the index
    pub fn complete_writes(&self) {
        let ks: Vec<RecordKey> = self.inner.unindexed.borrow_mut().drain(..).collect();
        for k in ks {
            if !self.inner.index.borrow().contains(&k) {
                self.inner.index.borrow_mut().push(k);
            }
        }
    }
    pub fn apply_pending_put(&self, idx: usize) {
        if let Some(r) = self.inner.pending_puts.borrow_mut().remove(idx) {
            self.apply(r);
        }
    }
    pub fn pending_put_count(&self) -> usize {
        self.inner.pending_puts.borrow().len()
    }
    pub fn notify_fetch_completed(&self, key: RecordKey, _t: ::ant_protocol::storage::RecordType) {
        self.inner.fetch_completed.borrow_mut().push(key);
    }
    pub fn notify_payment_received(&self) {
        self.inner.payments_notified.set(self.inner.payments_notified.get() + 1);
    }
}

pub mod node {
    use super::*;
    #[derive(Clone)]
    pub struct Node {
        pub network: Network,
        pub evm: ::ant_evm::EvmNetwork,
        pub events: EventsChannel,
        pub replicated: RefCell<Vec<RecordKey>>,
    }
    impl Node {
        pub fn new(network: Network) -> Self {
            Node { network, evm: ::ant_evm::EvmNetwork::ArbitrumOne, events: EventsChannel, replicated: RefCell::new(vec![]) }
        }
        pub(crate) fn network(&self) -> &Network {
            &self.network
        }
        pub(crate) fn evm_network(&self) -> &::ant_evm::EvmNetwork {
            &self.evm
        }
        pub(crate) fn events_channel(&self) -> &EventsChannel {
            &self.events
        }
        pub(crate) fn record_metrics(&self, marker: Marker) {
            marker.log();
        }
        pub(crate) fn replicate_valid_fresh_record(&self, key: RecordKey, _t: ::ant_protocol::storage::RecordType) {
            self.replicated.borrow_mut().push(key);
        }
    }
}

pub fn reset() {
    reset_time();
    CONTRACT.with(|c| *c.borrow_mut() = Contract::default());
}


/// environment of the transplanted Network::get_record_from_network (C05): one-shot channels and a model driver that
/// answers every GetNetworkRecord command at once with the next outcome of the harness's script
pub mod retry {
    use libp2p::kad::{Record, RecordKey};
    use std::cell::{Cell, RefCell};
    use std::collections::VecDeque;
    use std::rc::Rc;
    pub mod oneshot {
        use std::cell::RefCell;
        use std::future::Future;
        use std::pin::Pin;
        use std::rc::Rc;
        use std::task::{Context, Poll};
        pub struct Sender<T>(Rc<RefCell<Option<T>>>);
        pub struct Receiver<T>(Rc<RefCell<Option<T>>>, Rc<()>);
        #[derive(Debug)]
        pub struct RecvError;
        pub fn channel<T>() -> (Sender<T>, Receiver<T>) {
            let slot = Rc::new(RefCell::new(None));
            (Sender(slot.clone()), Receiver(slot, Rc::new(())))
        }
        impl<T> Sender<T> {
            pub fn send(self, v: T) -> Result<(), T> {
                *self.0.borrow_mut() = Some(v);
                Ok(())
            }
        }
        impl<T> Future for Receiver<T> {
            type Output = Result<T, RecvError>;
            fn poll(self: Pin<&mut Self>, _cx: &mut Context<'_>) -> Poll<Self::Output> {
                match self.0.borrow_mut().take() {
                    Some(v) => Poll::Ready(Ok(v)),
                    // the sender was dropped without answering (the model driver always answers or drops at once)
                    None => Poll::Ready(Err(RecvError)),
                }
            }
        }
    }
    pub enum NetworkSwarmCmd {
        GetNetworkRecord { key: RecordKey, sender: oneshot::Sender<Result<Record, ::ant_networking::GetRecordError>>, cfg: ::ant_networking::GetRecordCfg },
    }
    #[derive(Default)]
    pub struct Network {
        /// outcome of the 1st, 2nd, ... query; `None` = the driver drops the sender
        pub script: RefCell<VecDeque<Option<Result<Record, ::ant_networking::GetRecordError>>>>,
        pub queries: Cell<usize>,
        pub slept: Cell<usize>,
    }
    thread_local! { static SLEPT: Cell<usize> = Cell::new(0); }
    pub fn slept() -> usize {
        SLEPT.with(|s| s.get())
    }
    pub fn reset() {
        SLEPT.with(|s| s.set(0));
    }
    pub async fn sleep(_d: std::time::Duration) {
        SLEPT.with(|s| s.set(s.get() + 1));
    }
    impl Network {
        pub fn send_network_swarm_cmd(&self, cmd: NetworkSwarmCmd) {
            let NetworkSwarmCmd::GetNetworkRecord { sender, .. } = cmd;
            self.queries.set(self.queries.get() + 1);
            if let Some(Some(outcome)) = self.script.borrow_mut().pop_front() {
                let _ = sender.send(outcome);
            }
        }
    }
    #[allow(dead_code)]
    fn _unused(_: Rc<()>) {}
}
