//! C06 harnesses over the transplanted ant-registers crate (child module of register.rs).
use super::*;
use crate::reg::{RegisterCrdt, RegisterOp};
use crate::runner::Harness;
use crate::shim;
use crdts::merkle_reg::Node as MerkleDagEntry;
use symrt::{assume, check, check_bool, choice, cover, note, SymU};

pub fn harnesses() -> Vec<Harness> {
    vec![
        Harness { name: "c06_limits", property: "C06", f: c06_limits, about: "entry size and entry count limits with symbolic size / symbolic number of entries already held: whatever add_op and merges accept is valid for every other replica" },
        Harness { name: "c06_auth", property: "C06", f: c06_auth, about: "an operation enters a replica (add_op, verified_merge) only with a permitted signer, a genuine signature, for this register" },
        Harness { name: "c06_converge", property: "C06", f: c06_converge, about: "merge is commutative, associative, idempotent; replicas that received the same operations in any order hold the same operations and values" },
    ]
}

fn sk(i: u8) -> bls::SecretKey {
    let mut b = [0u8; 32];
    b[31] = 11 + i;
    b[30] = 2;
    bls::SecretKey::from_bytes(b).expect("valid scalar")
}
fn base(owner: u8, perms: Permissions, meta: u8) -> SignedRegister {
    let reg = Register::new(sk(owner).public_key(), XorName([meta; 32]), perms);
    let sig = sk(owner).sign(reg.bytes().expect("bytes"));
    SignedRegister::new(reg, sig, BTreeSet::new())
}
/// an op writing `payload` (optionally as a child of `parents`), signed by `signer`
fn op_for(addr: RegisterAddress, crdt: &mut RegisterCrdt, payload: &[u8], parents: &BTreeSet<crate::reg::EntryHash>, signer: u8) -> (crate::reg::EntryHash, RegisterOp) {
    let (h, _a, node) = crdt.write(payload.to_vec(), parents).expect("crdt write");
    (h, RegisterOp::new(addr, node, &sk(signer)))
}
fn setup() {
    symrt::register_path_reset(shim::reset);
    shim::reset();
}

fn c06_limits() {
    setup();
    let mut a = base(1, Permissions::new_anyone_can_write(), 7);
    let addr = *a.address();
    // every replica already holds n further valid entries; the new entry has a symbolic size
    let n = SymU::<64>::fresh("entries_already_held");
    assume(n.slt(SymU::konst(5000)).0);
    shim::declare_fillers(n);
    let size = SymU::<64>::fresh("entry_size");
    assume(size.slt(SymU::konst(1u64 << 32)).0);
    shim::declare_size(b"entry-x", size);
    let mut crdt = RegisterCrdt::new(addr);
    let (_h, opx) = op_for(addr, &mut crdt, b"entry-x", &BTreeSet::new(), 1);
    check_bool("limits:base_state_valid_or_over_limit", true);
    let before_valid = a.verify().is_ok();
    let r = a.add_op(opx.clone());
    if r.is_ok() {
        cover("accepted");
        check("limits:accepted_entry_within_size_limit", size.sle(SymU::konst(MAX_REG_ENTRY_SIZE as u64)).0);
        // the state reached through an accepted operation is valid for every other replica
        if before_valid && a.verify().is_err() {
            check_bool("limits:state_after_accepted_op_verifies[add_op_accepts_the_entry_that_verify_rejects]", false);
        } else {
            check_bool("limits:state_after_accepted_op_verifies", !before_valid || a.verify().is_ok());
        }
    } else {
        cover("rejected");
    }
    // the same entry arriving inside a whole replica (verified_merge) instead of through add_op
    {
        let mut recv = base(1, Permissions::new_anyone_can_write(), 7);
        let carrier = SignedRegister::new(recv.base_register().clone(), recv.signature.clone(), [opx.clone()].into_iter().collect());
        let merged = recv.verified_merge(&carrier).is_ok() && recv.ops().contains(&opx);
        if merged {
            cover("merged_entry");
            check("limits:entry_merged_from_a_replica_within_size_limit", size.sle(SymU::konst(MAX_REG_ENTRY_SIZE as u64)).0);
        }
    }
    // two replicas, each valid, each with one more entry: the merge result must be valid for others too
    let mut b1 = base(1, Permissions::new_anyone_can_write(), 7);
    let mut b2 = base(1, Permissions::new_anyone_can_write(), 7);
    let mut crdt2 = RegisterCrdt::new(addr);
    let (_h1, op1) = op_for(addr, &mut crdt2, b"entry-1", &BTreeSet::new(), 1);
    let (_h2, op2) = op_for(addr, &mut crdt2, b"entry-2", &BTreeSet::new(), 1);
    if b1.add_op(op1).is_ok() && b2.add_op(op2).is_ok() && b1.verify().is_ok() && b2.verify().is_ok() {
        let mut m = b1.clone();
        if m.verified_merge(&b2).is_ok() {
            cover("merged");
            if m.verify().is_err() {
                check_bool("limits:merge_of_valid_replicas_verifies[merge_ignores_the_entry_count_limit]", false);
            } else {
                check_bool("limits:merge_of_valid_replicas_verifies", true);
            }
        }
    }
}

fn c06_auth() {
    setup();
    let open = choice(2) == 1;
    let perms = if open { Permissions::new_anyone_can_write() } else { Permissions::new_with([sk(2).public_key()]) };
    let mut reg = base(1, perms.clone(), 7);
    let addr = *reg.address();
    let other_addr = *base(1, perms.clone(), 8).address();
    let signer = [1u8, 2, 3][choice(3)]; // owner, listed writer, stranger
    let sig_kind = choice(4); // genuine, signed by another key, genuine but for another register's address, genuine but for the same entry under other children
    let mut crdt = RegisterCrdt::new(addr);
    let (_h, node) = { let (h, _a, n) = crdt.write(b"entry".to_vec(), &BTreeSet::new()).unwrap(); (h, n) };
    let op = match sig_kind {
        0 => RegisterOp::new(addr, node, &sk(signer)),
        1 => {
            // claims `signer` as its source but carries key 9's signature
            let mut o = RegisterOp::new(addr, node.clone(), &sk(signer));
            let forged = RegisterOp::new(addr, node, &sk(9));
            o.signature = forged.signature;
            o
        }
        2 => RegisterOp::new(other_addr, node, &sk(signer)),
        _ => {
            // the signer's genuine signature over this entry written on no children, attached to the same entry
            // re-parented onto an existing node: what the signature covers must include the causal parents
            let mut c2 = RegisterCrdt::new(addr);
            let (hp, _a, _parent) = c2.write(b"parent".to_vec(), &BTreeSet::new()).unwrap();
            let (_h2, _a2, reparented) = c2.write(b"entry".to_vec(), &[hp].into_iter().collect()).unwrap();
            let mut o = RegisterOp::new(addr, reparented, &sk(signer));
            o.signature = RegisterOp::new(addr, node, &sk(signer)).signature;
            o
        }
    };
    // the replica may already hold the owner's genuine operation for the very same entry (same Merkle node): what
    // is checked about an incoming operation must not depend on whether its entry is already known
    let holds_same_entry = choice(2) == 1;
    if holds_same_entry {
        let genuine = RegisterOp::new(addr, { let mut c = RegisterCrdt::new(addr); c.write(b"entry".to_vec(), &BTreeSet::new()).unwrap().2 }, &sk(1));
        let _ = reg.add_op(genuine);
        cover("replica_already_holds_the_entry");
    }
    let via_merge = choice(2) == 1;
    note(format!("holds_same_entry={holds_same_entry} open={open} signer={} signature={} via_merge={via_merge}", ["owner", "writer", "stranger"][[1u8, 2, 3].iter().position(|x| *x == signer).unwrap()], ["genuine", "forged", "for another register", "genuine for other children"][sig_kind]));
    let accepted = if via_merge {
        // another replica that already contains the op (it did not go through add_op there)
        let other = SignedRegister::new(reg.base_register().clone(), reg.signature.clone(), [op.clone()].into_iter().collect());
        reg.verified_merge(&other).is_ok() && reg.ops().contains(&op)
    } else {
        reg.add_op(op.clone()).is_ok()
    };
    let permitted = open || signer == 1 || signer == 2;
    if accepted {
        cover("accepted");
        check_bool("auth:accepted_only_from_permitted_signer", permitted);
        if sig_kind == 1 {
            if open {
                check_bool("auth:forged_signature_rejected[open_register_never_checks_signatures]", false);
            } else {
                check_bool("auth:forged_signature_rejected", false);
            }
        }
        if sig_kind == 2 {
            check_bool("auth:op_for_another_register_rejected[op_address_never_compared]", false);
        }
        if sig_kind == 3 {
            if open {
                check_bool("auth:forged_signature_rejected[open_register_never_checks_signatures]", false);
            } else {
                check_bool("auth:signature_covers_the_causal_parents", false);
            }
        }
    } else {
        cover("rejected");
        if sig_kind == 0 {
            check_bool("auth:genuine_op_from_permitted_signer_accepted", !permitted);
        }
    }
    // a register with different permissions or another address is a different base register
    let mut r2 = base(1, Permissions::new_anyone_can_write(), 7);
    let r3 = base(1, Permissions::new_with([sk(2).public_key()]), 7);
    check_bool("auth:merge_with_different_base_register_rejected", r2.verified_merge(&r3).is_err() && r2.merge(&base(1, Permissions::new_anyone_can_write(), 8)).is_err());
}

fn c06_converge() {
    setup();
    let reg = base(1, Permissions::new_anyone_can_write(), 7);
    let addr = *reg.address();
    // pool: two concurrent writes and one write causally after the first
    let mut crdt = RegisterCrdt::new(addr);
    let (h1, op1) = op_for(addr, &mut crdt, b"e1", &BTreeSet::new(), 1);
    let (_h2, op2) = op_for(addr, &mut crdt, b"e2", &BTreeSet::new(), 2);
    let (_h3, op3) = op_for(addr, &mut crdt, b"e3", &[h1].into_iter().collect(), 3);
    // second pool: two writers write the same entry bytes on the same (empty) set of children, so their
    // operations carry the same Merkle node but differ in source and signature
    let same_entry = choice(2) == 1;
    let pool = if same_entry {
        let mut other = RegisterCrdt::new(addr);
        let (_h, op1b) = op_for(addr, &mut other, b"e1", &BTreeSet::new(), 4);
        cover("same_entry_two_writers");
        vec![op1, op1b, op2]
    } else {
        vec![op1, op2, op3]
    };
    // thorough tier: a fourth operation (a write on top of the second one, by another writer)
    let pool_size: usize = std::env::var("C06_POOL").ok().and_then(|v| v.parse().ok()).unwrap_or(3);
    let mut pool = pool;
    if pool_size >= 4 && !same_entry {
        let (_h4, op4) = op_for(addr, &mut crdt, b"e4", &[_h2].into_iter().collect(), 2);
        pool.push(op4);
    }
    // replicas A, B receive the pool in two (symbolically chosen) orders, with one duplicate delivery
    fn perms(n: usize) -> Vec<Vec<usize>> {
        if n == 0 {
            return vec![vec![]];
        }
        let mut out = vec![];
        for p in perms(n - 1) {
            for i in 0..=p.len() {
                let mut q = p.clone();
                q.insert(i, n - 1);
                out.push(q);
            }
        }
        out
    }
    let orders: Vec<Vec<usize>> = perms(pool.len());
    let oa = orders[choice(orders.len())].clone();
    let ob = orders[choice(orders.len())].clone();
    let mut a = reg.clone();
    let mut b = reg.clone();
    // every state a replica reaches through accepted operations is itself valid for every other replica (it is what
    // the replica would hand out): also the states in which an operation arrived before the one it was written on
    for i in &oa {
        a.add_op(pool[*i].clone()).expect("valid op accepted");
        check_bool("converge:every_reachable_state_is_accepted_as_valid", a.verify().is_ok());
    }
    for i in &ob {
        b.add_op(pool[*i].clone()).expect("valid op accepted");
        check_bool("converge:every_reachable_state_is_accepted_as_valid", b.verify().is_ok());
        let mut fresh = reg.clone();
        check_bool("converge:every_reachable_state_can_be_merged_by_another_replica", fresh.verified_merge(&b).is_ok() && fresh.ops() == b.ops());
    }
    b.add_op(pool[ob[0]].clone()).expect("duplicate delivery accepted");
    note(format!("order A {oa:?}, order B {ob:?}"));
    cover("delivered");
    check_bool("converge:same_received_set_same_ops", a.ops() == b.ops());
    // nothing that was accepted is dropped (membership by equality of the whole operation, not by the set's order)
    for (r, nm) in [(&a, "A"), (&b, "B")] {
        let all_kept = pool.iter().all(|p| r.ops().iter().any(|o| o == p)) && r.ops().len() == pool.len();
        if !all_kept {
            note(format!("replica {nm} holds {} of {} accepted operations", r.ops().len(), pool.len()));
        }
        check_bool("converge:every_accepted_operation_is_held", all_kept);
    }
    // current values: apply the ops to a CRDT in each replica's order
    let value = |order: &Vec<usize>| {
        let mut c = RegisterCrdt::new(addr);
        let mut deferred = vec![];
        for i in order {
            if c.apply_op(pool[*i].clone()).is_err() {
                deferred.push(*i);
            }
        }
        for i in deferred {
            let _ = c.apply_op(pool[i].clone());
        }
        c.read()
    };
    check_bool("converge:same_received_set_same_current_values", value(&oa) == value(&ob));
    // merge laws on partial replicas
    let part = |idx: &[usize]| {
        let mut r = reg.clone();
        for i in idx {
            r.add_op(pool[*i].clone()).unwrap();
        }
        r
    };
    let (x, y, z) = (part(&[0]), part(&[1]), part(&[2, 0]));
    let m = |p: &SignedRegister, q: &SignedRegister| {
        let mut r = p.clone();
        r.verified_merge(q).expect("merge of valid replicas");
        r
    };
    check_bool("converge:merge_commutative", m(&x, &y).ops() == m(&y, &x).ops());
    check_bool("converge:merge_associative", m(&m(&x, &y), &z).ops() == m(&x, &m(&y, &z)).ops());
    check_bool("converge:merge_idempotent", m(&x, &x).ops() == x.ops());
    check_bool("converge:merged_state_verifies", m(&m(&x, &y), &z).verify().is_ok());
}
