//! d_reg: the whole ant-registers crate transplanted as `crate::reg`, with the entry-size and
//! entry-count comparisons of register.rs made symbolic.
#![allow(dead_code, unused_imports, unused_variables, unused_mut, clippy::all)]
// path-qualified uses (`tracing::warn!(..)`) in transplanted code resolve to no-op macros
extern crate noop_tracing as tracing;
pub mod shim;
#[path = "gen/reg/mod.rs"]
pub mod reg;
mod runner;

fn main() {
    runner::main_dispatch(reg::register::harness::harnesses());
}
