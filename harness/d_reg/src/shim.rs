//! symbolic entry sizes and entry counts for the transplanted register.rs
use std::cell::RefCell;
use symrt::SymU;

#[derive(Clone, Copy, Debug)]
pub struct SymLen(pub SymU<64>);
impl PartialEq<usize> for SymLen {
    fn eq(&self, o: &usize) -> bool {
        self.0 == SymU::konst(*o as u64)
    }
}
impl PartialOrd<usize> for SymLen {
    fn partial_cmp(&self, o: &usize) -> Option<std::cmp::Ordering> {
        Some(self.0.cmp(&SymU::konst(*o as u64)))
    }
    fn gt(&self, o: &usize) -> bool {
        self.0 > SymU::konst(*o as u64)
    }
    fn ge(&self, o: &usize) -> bool {
        self.0 >= SymU::konst(*o as u64)
    }
    fn lt(&self, o: &usize) -> bool {
        self.0 < SymU::konst(*o as u64)
    }
}
impl From<SymLen> for usize {
    fn from(l: SymLen) -> usize {
        // only used inside error values
        l.0.model_value().try_into().unwrap_or(usize::MAX)
    }
}

thread_local! {
    /// entries whose declared size is symbolic: payload bytes -> size
    static SIZES: RefCell<Vec<(Vec<u8>, SymU<64>)>> = RefCell::new(Vec::new());
    /// number of further (valid, unrelated) entries every replica already holds
    static FILLERS: RefCell<Option<SymU<64>>> = RefCell::new(None);
}
pub fn reset() {
    SIZES.with(|s| s.borrow_mut().clear());
    FILLERS.with(|f| *f.borrow_mut() = None);
}
pub fn declare_size(payload: &[u8], size: SymU<64>) {
    SIZES.with(|s| s.borrow_mut().push((payload.to_vec(), size)));
}
pub fn declare_fillers(n: SymU<64>) {
    FILLERS.with(|f| *f.borrow_mut() = Some(n));
}
pub fn sym_size(payload: &Vec<u8>) -> SymLen {
    if let Some(s) = SIZES.with(|s| s.borrow().iter().find(|(p, _)| p == payload).map(|(_, s)| *s)) {
        return SymLen(s);
    }
    SymLen(SymU::konst(payload.len() as u64))
}
pub fn sym_count(real: usize) -> SymLen {
    let base = SymU::konst(real as u64);
    match FILLERS.with(|f| *f.borrow()) {
        Some(n) => SymLen(base.wrapping_add(n)),
        None => SymLen(base),
    }
}
