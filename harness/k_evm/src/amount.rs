//! C16 (a): checked_add / checked_sub on fully symbolic 256-bit operands.
use ant_evm::{Amount, AttoTokens};

fn any_amount() -> Amount {
    let limbs: [u64; 4] = kani::any();
    Amount::from_limbs(limbs)
}

/// reference: limb-wise carry chain
fn ref_add(a: [u64; 4], b: [u64; 4]) -> ([u64; 4], bool) {
    let mut out = [0u64; 4];
    let mut carry = false;
    let mut i = 0;
    while i < 4 {
        let (s1, c1) = a[i].overflowing_add(b[i]);
        let (s2, c2) = s1.overflowing_add(carry as u64);
        out[i] = s2;
        carry = c1 || c2;
        i += 1;
    }
    (out, carry)
}
fn ref_sub(a: [u64; 4], b: [u64; 4]) -> ([u64; 4], bool) {
    let mut out = [0u64; 4];
    let mut borrow = false;
    let mut i = 0;
    while i < 4 {
        let (s1, c1) = a[i].overflowing_sub(b[i]);
        let (s2, c2) = s1.overflowing_sub(borrow as u64);
        out[i] = s2;
        borrow = c1 || c2;
        i += 1;
    }
    (out, borrow)
}

#[kani::proof]
#[kani::unwind(6)]
fn c16_checked_add_exact_or_none() {
    let a = any_amount();
    let b = any_amount();
    let (sum, carry) = ref_add(*a.as_limbs(), *b.as_limbs());
    let r = AttoTokens::from_atto(a).checked_add(AttoTokens::from_atto(b));
    match r {
        Some(v) => {
            assert!(!carry, "Some(_) returned although the exact sum does not fit");
            let l = *v.as_atto().as_limbs();
            assert!(l[0] == sum[0] && l[1] == sum[1] && l[2] == sum[2] && l[3] == sum[3]);
        }
        None => assert!(carry, "None returned although the sum fits"),
    }
    kani::cover!(r.is_some(), "add: fits");
    kani::cover!(r.is_none(), "add: overflows");
}

#[kani::proof]
#[kani::unwind(6)]
fn c16_checked_sub_exact_or_none() {
    let a = any_amount();
    let b = any_amount();
    let (diff, borrow) = ref_sub(*a.as_limbs(), *b.as_limbs());
    let r = AttoTokens::from_atto(a).checked_sub(AttoTokens::from_atto(b));
    match r {
        Some(v) => {
            assert!(!borrow);
            let l = *v.as_atto().as_limbs();
            assert!(l[0] == diff[0] && l[1] == diff[1] && l[2] == diff[2] && l[3] == diff[3]);
        }
        None => assert!(borrow),
    }
    kani::cover!(r.is_some(), "sub: fits");
    kani::cover!(r.is_none(), "sub: underflows");
}
