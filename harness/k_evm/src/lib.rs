//! Kani proof harnesses over the real ant-evm crate (path dependency on /repo).
#![allow(dead_code, unused_imports)]

#[cfg(kani)]
mod stubs;
#[cfg(kani)]
mod amount;
#[cfg(kani)]
mod parse;
#[cfg(kani)]
mod quote_bytes;
extern crate alloc;
