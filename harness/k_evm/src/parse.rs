//! C16 (c) / C17: AttoTokens::from_str on fully symbolic ASCII strings of a concrete length.
//! Real code: ant-evm's from_str and ruint's FromStr prefix detection.  Stubbed (ruint's
//! big-integer algorithms on symbolic data are out of CBMC's reach): Uint::from_str_radix,
//! Uint::pow, Uint::checked_mul, Uint::checked_add, Mul -- by u128 models that are exact for
//! the input sizes of these harnesses (values < 10^5 * 10^18 << 2^128).
use ant_evm::{Amount, AttoTokens};
use core::str::FromStr;

pub fn model_from_str_radix<const BITS: usize, const LIMBS: usize>(src: &str, radix: u64) -> Result<ruint::Uint<BITS, LIMBS>, ruint::ParseError> {
    if radix > 36 {
        return Err(ruint::ParseError::InvalidRadix(radix));
    }
    let mut acc: u128 = 0;
    let b = src.as_bytes();
    let mut i = 0;
    while i < b.len() {
        let c = b[i];
        i += 1;
        let digit: u64 = if c >= b'0' && c <= b'9' {
            (c - b'0') as u64
        } else if c >= b'a' && c <= b'z' {
            (c - b'a') as u64 + 10
        } else if c >= b'A' && c <= b'Z' {
            (c - b'A') as u64 + 10
        } else if c == b'_' {
            continue;
        } else {
            return Err(ruint::ParseError::InvalidDigit(c as char));
        };
        if digit >= radix {
            return Err(ruint::ParseError::BaseConvertError(ruint::BaseConvertError::InvalidDigit(digit, radix)));
        }
        acc = acc * (radix as u128) + digit as u128; // cannot overflow for <= 6 characters
    }
    Ok(ruint::Uint::<BITS, LIMBS>::from(acc))
}

fn low128<const BITS: usize, const LIMBS: usize>(a: ruint::Uint<BITS, LIMBS>) -> u128 {
    let l = a.as_limbs();
    (l[0] as u128) | ((l[1] as u128) << 64)
}
pub fn model_checked_mul<const BITS: usize, const LIMBS: usize>(a: ruint::Uint<BITS, LIMBS>, b: ruint::Uint<BITS, LIMBS>) -> Option<ruint::Uint<BITS, LIMBS>> {
    low128(a).checked_mul(low128(b)).map(ruint::Uint::<BITS, LIMBS>::from)
}
pub fn model_checked_add<const BITS: usize, const LIMBS: usize>(a: ruint::Uint<BITS, LIMBS>, b: ruint::Uint<BITS, LIMBS>) -> Option<ruint::Uint<BITS, LIMBS>> {
    low128(a).checked_add(low128(b)).map(ruint::Uint::<BITS, LIMBS>::from)
}
const POW10: [u128; 19] = [
    1, 10, 100, 1_000, 10_000, 100_000, 1_000_000, 10_000_000, 100_000_000, 1_000_000_000, 10_000_000_000, 100_000_000_000,
    1_000_000_000_000, 10_000_000_000_000, 100_000_000_000_000, 1_000_000_000_000_000, 10_000_000_000_000_000,
    100_000_000_000_000_000, 1_000_000_000_000_000_000,
];
/// the only power the code takes is 10^(18 - len), len in 1..=18
pub fn model_pow<const BITS: usize, const LIMBS: usize>(a: ruint::Uint<BITS, LIMBS>, e: ruint::Uint<BITS, LIMBS>) -> ruint::Uint<BITS, LIMBS> {
    assert!(low128(a) == 10);
    let n = e.as_limbs()[0] as usize;
    assert!(n <= 18);
    ruint::Uint::<BITS, LIMBS>::from(POW10[n])
}

/// what the string denotes in atto, if it is plain decimal notation `D*[.D*]`
fn spec(s: &[u8]) -> Option<u128> {
    let mut units: u128 = 0;
    let mut frac: u128 = 0;
    let mut frac_len: u32 = 0;
    let mut seen_dot = false;
    let mut i = 0;
    while i < s.len() {
        let c = s[i];
        i += 1;
        if c == b'.' {
            if seen_dot {
                return None;
            }
            seen_dot = true;
        } else if c >= b'0' && c <= b'9' {
            if seen_dot {
                frac = frac * 10 + (c - b'0') as u128;
                frac_len += 1;
            } else {
                units = units * 10 + (c - b'0') as u128;
            }
        } else {
            return None;
        }
    }
    if frac_len > 18 {
        return None;
    }
    let scale: u128 = POW10[(18 - frac_len) as usize];
    Some(units * 1_000_000_000_000_000_000u128 + frac * scale)
}

fn check_len<const L: usize>() {
    let bytes: [u8; L] = kani::any();
    let mut i = 0;
    while i < L {
        kani::assume(bytes[i] < 0x80);
        i += 1;
    }
    // ASCII by assumption; from_utf8 proper is a word-at-a-time loop that CBMC cannot afford
    let s = unsafe { core::str::from_utf8_unchecked(&bytes) };
    let r = AttoTokens::from_str(s);
    let want = spec(&bytes);
    match (&r, want) {
        (Ok(v), Some(w)) => {
            let a = v.as_atto();
            let l = a.as_limbs();
            assert!(l[2] == 0 && l[3] == 0 && (l[0] as u128 | ((l[1] as u128) << 64)) == w, "parsed value differs from the decimal value of the text");
        }
        (Ok(_), None) => panic!("accepted a string that is not plain decimal notation"),
        (Err(_), Some(_)) => {
            // empty integer part / lone dot are leniencies the property text does not settle; every
            // other well-formed decimal with <= 18 fractional digits must be accepted
            let has_digit_units = L > 0 && bytes[0] != b'.';
            assert!(!has_digit_units, "rejected a well-formed decimal amount");
        }
        (Err(_), None) => {}
    }
    kani::cover!(r.is_ok(), "some string is accepted");
    kani::cover!(r.is_err(), "some string is rejected");
    core::mem::forget(r);
}

macro_rules! from_str_harness {
    ($name:ident, $len:expr, $unwind:expr) => {
        #[kani::proof]
        #[kani::unwind($unwind)]
        #[kani::stub(ruint::Uint::from_str_radix, model_from_str_radix)]
        #[kani::stub(ruint::Uint::checked_mul, model_checked_mul)]
        #[kani::stub(ruint::Uint::checked_add, model_checked_add)]
        #[kani::stub(ruint::Uint::pow, model_pow)]
        #[kani::stub(alloc::fmt::format, crate::stubs::fmt_format)]
        fn $name() {
            check_len::<$len>();
        }
    };
}
#[kani::proof]
#[kani::unwind(40)]
#[kani::stub(ruint::Uint::from_str_radix, model_from_str_radix)]
#[kani::stub(ruint::Uint::checked_mul, model_checked_mul)]
#[kani::stub(ruint::Uint::checked_add, model_checked_add)]
#[kani::stub(ruint::Uint::pow, model_pow)]
#[kani::stub(alloc::fmt::format, crate::stubs::fmt_format)]
fn c16_from_str_len0() {
    // the empty string: whether it denotes zero or is rejected is a leniency the text does not settle;
    // it must not panic and, if accepted, must be zero
    let r = AttoTokens::from_str("");
    if let Ok(v) = &r {
        assert!(v.is_zero());
    }
    kani::cover!(true, "the empty string is decided");
    core::mem::forget(r);
}
from_str_harness!(c16_from_str_len1, 1, 4);
from_str_harness!(c16_from_str_len2, 2, 5);
from_str_harness!(c16_from_str_len3, 3, 6);
from_str_harness!(c16_from_str_len4, 4, 7);
