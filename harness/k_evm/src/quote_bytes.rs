//! C13 (a): the signed byte string of a quote binds every signed field.
//! Two field sets that differ in exactly one of content address, timestamp (whole seconds), one
//! quoting-metrics field, rewards address must give different bytes_for_signing outputs.
//! rmp_serde::to_vec(&QuotingMetrics) is replaced by a fixed-width field-by-field encoder (msgpack
//! itself is trusted to be injective and self-delimiting; with the real encoder on symbolic
//! integers CBMC did not finish in 26 min): what is decided is the repository's part -- which
//! fields enter the signed bytes, in which order and at which width.
use ant_evm::PaymentQuote;
use evmlib::common::Address;
use evmlib::quoting_metrics::QuotingMetrics;
use serde::ser::{self, Serialize};
use std::time::{Duration, SystemTime};
use xor_name::XorName;

pub struct Fixed(pub Vec<u8>);
#[derive(Debug)]
pub struct FixedErr;
impl core::fmt::Display for FixedErr {
    fn fmt(&self, _f: &mut core::fmt::Formatter<'_>) -> core::fmt::Result {
        Ok(())
    }
}
impl std::error::Error for FixedErr {}
impl ser::Error for FixedErr {
    fn custom<T: core::fmt::Display>(_m: T) -> Self {
        FixedErr
    }
}
impl Fixed {
    fn put(&mut self, v: u64) {
        let b = v.to_le_bytes();
        let mut i = 0;
        while i < 8 {
            self.0.push(b[i]);
            i += 1;
        }
    }
}
impl<'a> ser::Serializer for &'a mut Fixed {
    type Ok = ();
    type Error = FixedErr;
    type SerializeSeq = Self;
    type SerializeTuple = Self;
    type SerializeTupleStruct = Self;
    type SerializeTupleVariant = Self;
    type SerializeMap = Self;
    type SerializeStruct = Self;
    type SerializeStructVariant = Self;
    fn serialize_bool(self, v: bool) -> Result<(), FixedErr> { self.0.push(v as u8); Ok(()) }
    fn serialize_i8(self, v: i8) -> Result<(), FixedErr> { self.put(v as u64); Ok(()) }
    fn serialize_i16(self, v: i16) -> Result<(), FixedErr> { self.put(v as u64); Ok(()) }
    fn serialize_i32(self, v: i32) -> Result<(), FixedErr> { self.put(v as u64); Ok(()) }
    fn serialize_i64(self, v: i64) -> Result<(), FixedErr> { self.put(v as u64); Ok(()) }
    fn serialize_u8(self, v: u8) -> Result<(), FixedErr> { self.0.push(v); Ok(()) }
    fn serialize_u16(self, v: u16) -> Result<(), FixedErr> { self.put(v as u64); Ok(()) }
    fn serialize_u32(self, v: u32) -> Result<(), FixedErr> { self.put(v as u64); Ok(()) }
    fn serialize_u64(self, v: u64) -> Result<(), FixedErr> { self.put(v); Ok(()) }
    fn serialize_f32(self, _v: f32) -> Result<(), FixedErr> { Err(FixedErr) }
    fn serialize_f64(self, _v: f64) -> Result<(), FixedErr> { Err(FixedErr) }
    fn serialize_char(self, _v: char) -> Result<(), FixedErr> { Err(FixedErr) }
    fn serialize_str(self, _v: &str) -> Result<(), FixedErr> { Err(FixedErr) }
    fn serialize_bytes(self, v: &[u8]) -> Result<(), FixedErr> {
        self.put(v.len() as u64);
        let mut i = 0;
        while i < v.len() {
            self.0.push(v[i]);
            i += 1;
        }
        Ok(())
    }
    fn serialize_none(self) -> Result<(), FixedErr> { self.0.push(0); Ok(()) }
    fn serialize_some<T: ?Sized + Serialize>(self, v: &T) -> Result<(), FixedErr> { self.0.push(1); v.serialize(self) }
    fn serialize_unit(self) -> Result<(), FixedErr> { Ok(()) }
    fn serialize_unit_struct(self, _n: &'static str) -> Result<(), FixedErr> { Ok(()) }
    fn serialize_unit_variant(self, _n: &'static str, i: u32, _v: &'static str) -> Result<(), FixedErr> { self.put(i as u64); Ok(()) }
    fn serialize_newtype_struct<T: ?Sized + Serialize>(self, _n: &'static str, v: &T) -> Result<(), FixedErr> { v.serialize(self) }
    fn serialize_newtype_variant<T: ?Sized + Serialize>(self, _n: &'static str, i: u32, _v: &'static str, t: &T) -> Result<(), FixedErr> { self.put(i as u64); t.serialize(self) }
    fn serialize_seq(self, l: Option<usize>) -> Result<Self, FixedErr> { self.put(l.unwrap_or(0) as u64); Ok(self) }
    fn serialize_tuple(self, _l: usize) -> Result<Self, FixedErr> { Ok(self) }
    fn serialize_tuple_struct(self, _n: &'static str, _l: usize) -> Result<Self, FixedErr> { Ok(self) }
    fn serialize_tuple_variant(self, _n: &'static str, i: u32, _v: &'static str, _l: usize) -> Result<Self, FixedErr> { self.put(i as u64); Ok(self) }
    fn serialize_map(self, _l: Option<usize>) -> Result<Self, FixedErr> { Ok(self) }
    fn serialize_struct(self, _n: &'static str, _l: usize) -> Result<Self, FixedErr> { Ok(self) }
    fn serialize_struct_variant(self, _n: &'static str, i: u32, _v: &'static str, _l: usize) -> Result<Self, FixedErr> { self.put(i as u64); Ok(self) }
}
macro_rules! compound {
    ($tr:ident, $m:ident) => {
        impl<'a> ser::$tr for &'a mut Fixed {
            type Ok = ();
            type Error = FixedErr;
            fn $m<T: ?Sized + Serialize>(&mut self, v: &T) -> Result<(), FixedErr> { v.serialize(&mut **self) }
            fn end(self) -> Result<(), FixedErr> { Ok(()) }
        }
    };
}
compound!(SerializeSeq, serialize_element);
compound!(SerializeTuple, serialize_element);
compound!(SerializeTupleStruct, serialize_field);
compound!(SerializeTupleVariant, serialize_field);
impl<'a> ser::SerializeMap for &'a mut Fixed {
    type Ok = ();
    type Error = FixedErr;
    fn serialize_key<T: ?Sized + Serialize>(&mut self, k: &T) -> Result<(), FixedErr> { k.serialize(&mut **self) }
    fn serialize_value<T: ?Sized + Serialize>(&mut self, v: &T) -> Result<(), FixedErr> { v.serialize(&mut **self) }
    fn end(self) -> Result<(), FixedErr> { Ok(()) }
}
impl<'a> ser::SerializeStruct for &'a mut Fixed {
    type Ok = ();
    type Error = FixedErr;
    fn serialize_field<T: ?Sized + Serialize>(&mut self, _k: &'static str, v: &T) -> Result<(), FixedErr> { v.serialize(&mut **self) }
    fn end(self) -> Result<(), FixedErr> { Ok(()) }
}
impl<'a> ser::SerializeStructVariant for &'a mut Fixed {
    type Ok = ();
    type Error = FixedErr;
    fn serialize_field<T: ?Sized + Serialize>(&mut self, _k: &'static str, v: &T) -> Result<(), FixedErr> { v.serialize(&mut **self) }
    fn end(self) -> Result<(), FixedErr> { Ok(()) }
}
/// stands for rmp_serde::to_vec
pub fn fixed_to_vec<T: ?Sized + Serialize>(v: &T) -> Result<Vec<u8>, rmp_serde::encode::Error> {
    let mut f = Fixed(Vec::with_capacity(64));
    match v.serialize(&mut f) {
        Ok(()) => Ok(f.0),
        Err(_) => Err(rmp_serde::encode::Error::UnknownLength),
    }
}

#[derive(Clone, Copy)]
struct Fields {
    content: [u8; 32],
    secs: u64,
    close: usize,
    max: usize,
    paid: usize,
    live: u64,
    size: u64,
    addr: [u8; 20],
}
/// `with_size`: whether network_size is Some (the shape, hence the encoded length, is concrete per harness)
fn any_fields() -> Fields {
    let secs: u64 = kani::any();
    kani::assume(secs < (1u64 << 40));
    Fields { content: kani::any(), secs, close: kani::any(), max: kani::any(), paid: kani::any(), live: kani::any(), size: kani::any(), addr: kani::any() }
}
fn bytes_of(f: &Fields, with_size: bool) -> Vec<u8> {
    let qm = QuotingMetrics {
        close_records_stored: f.close,
        max_records: f.max,
        received_payment_count: f.paid,
        live_time: f.live,
        network_density: None,
        network_size: if with_size { Some(f.size) } else { None },
    };
    PaymentQuote::bytes_for_signing(XorName(f.content), SystemTime::UNIX_EPOCH + Duration::from_secs(f.secs), &qm, &Address::from(f.addr))
}
fn differ(a: &Vec<u8>, b: &Vec<u8>) -> bool {
    if a.len() != b.len() {
        return true;
    }
    let mut i = 0;
    let mut d = false;
    while i < a.len() {
        if a[i] != b[i] {
            d = true;
        }
        i += 1;
    }
    d
}

macro_rules! binds {
    ($name:ident, $field:ident, $with_size:expr) => {
        #[kani::proof]
        #[kani::unwind(140)]
        #[kani::stub(rmp_serde::to_vec, fixed_to_vec)]
        fn $name() {
            let a = any_fields();
            let mut b = a;
            b.$field = kani::any();
            kani::assume(b.$field != a.$field);
            kani::assume(b.secs < (1u64 << 40));
            let ba = bytes_of(&a, $with_size);
            let bb = bytes_of(&b, $with_size);
            assert!(differ(&ba, &bb), "altering this field leaves the signed bytes unchanged");
            kani::cover!(true, "compared");
            core::mem::forget(ba);
            core::mem::forget(bb);
        }
    };
}
binds!(c13_signed_bytes_bind_content, content, true);
binds!(c13_signed_bytes_bind_timestamp_seconds, secs, true);
binds!(c13_signed_bytes_bind_close_records_stored, close, true);
binds!(c13_signed_bytes_bind_max_records, max, true);
binds!(c13_signed_bytes_bind_received_payment_count, paid, true);
binds!(c13_signed_bytes_bind_live_time, live, true);
binds!(c13_signed_bytes_bind_network_size, size, true);
binds!(c13_signed_bytes_bind_rewards_address, addr, true);
binds!(c13_signed_bytes_without_network_size_bind_live_time, live, false);

/// network_size present vs absent
#[kani::proof]
#[kani::unwind(140)]
#[kani::stub(rmp_serde::to_vec, fixed_to_vec)]
fn c13_signed_bytes_bind_presence_of_network_size() {
    let a = any_fields();
    let ba = bytes_of(&a, true);
    let bb = bytes_of(&a, false);
    assert!(differ(&ba, &bb), "dropping network_size leaves the signed bytes unchanged");
    kani::cover!(true, "compared");
    core::mem::forget(ba);
    core::mem::forget(bb);
}
