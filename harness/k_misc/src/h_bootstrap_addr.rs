//! C17/C18: the success/failure counters of a bootstrap address never overflow (full u32 range).
use super::*;
use crate::shim::SystemTime;

fn any_addr() -> BootstrapAddr {
    BootstrapAddr { addr: 0, success_count: kani::any(), failure_count: kani::any(), last_seen: SystemTime(kani::any()) }
}

#[kani::proof]
#[kani::stub(alloc::fmt::format, crate::shim::fmt_format)]
fn c17_bootstrap_addr_update_status_never_overflows() {
    let mut a = any_addr();
    let before = (a.success_count, a.failure_count);
    let ok: bool = kani::any();
    a.update_status(ok);
    if ok && before.0 < u32::MAX {
        assert!(a.success_count == before.0 + 1 && a.failure_count == before.1);
    }
    if !ok && before.1 < u32::MAX {
        assert!(a.failure_count == before.1 + 1 && a.success_count == before.0);
    }
    let _ = a.is_reliable();
    assert!(a.failure_rate().in_range(), "failure rate outside its range");
    kani::cover!(before.0 == u32::MAX && ok, "success counter at its maximum");
}

#[kani::proof]
#[kani::stub(alloc::fmt::format, crate::shim::fmt_format)]
fn c17_bootstrap_addr_sync_never_overflows() {
    let mut a = any_addr();
    let b = any_addr();
    a.sync(&b);
    assert!(a.failure_rate().in_range(), "failure rate outside its range");
    kani::cover!(b.success_count == u32::MAX, "other side saturated");
}

#[kani::proof]
fn c17_bootstrap_addr_failure_rate_never_overflows() {
    let a = any_addr();
    assert!(a.failure_rate().in_range(), "failure rate outside its range");
    kani::cover!(a.success_count > u32::MAX / 2 && a.failure_count > u32::MAX / 2, "sum exceeds u32");
}


/// the rate's value range, whatever numeric type the function returns it in (a fraction in [0, 1], or an integer
/// number of percent / basis points): what C17 decides is that computing it never panics or overflows
trait RateRange {
    fn in_range(self) -> bool;
}
impl RateRange for f64 {
    fn in_range(self) -> bool {
        self >= 0.0 && self <= 1.0
    }
}
impl RateRange for f32 {
    fn in_range(self) -> bool {
        self >= 0.0 && self <= 1.0
    }
}
impl RateRange for u64 {
    fn in_range(self) -> bool {
        self <= 10_000
    }
}
impl RateRange for u32 {
    fn in_range(self) -> bool {
        self <= 10_000
    }
}
