//! C17/C18: the success/failure counters of a bootstrap address never overflow (full u32 range).
use super::*;
use crate::shim::SystemTime;

fn any_addr() -> BootstrapAddr {
    BootstrapAddr { addr: 0, success_count: kani::any(), failure_count: kani::any(), last_seen: SystemTime(kani::any()) }
}

#[kani::proof]
#[kani::stub(alloc::fmt::format, crate::shim::fmt_format)]
fn c17_bootstrap_addr_update_status_never_overflows() {
    let mut a = any_addr();
    let before = (a.success_count, a.failure_count);
    let ok: bool = kani::any();
    a.update_status(ok);
    if ok && before.0 < u32::MAX {
        assert!(a.success_count == before.0 + 1 && a.failure_count == before.1);
    }
    if !ok && before.1 < u32::MAX {
        assert!(a.failure_count == before.1 + 1 && a.success_count == before.0);
    }
    let _ = a.is_reliable();
    let r = a.failure_rate();
    assert!(r >= 0.0 && r <= 1.0, "failure rate outside [0, 1]");
    kani::cover!(before.0 == u32::MAX && ok, "success counter at its maximum");
}

#[kani::proof]
#[kani::stub(alloc::fmt::format, crate::shim::fmt_format)]
fn c17_bootstrap_addr_sync_never_overflows() {
    let mut a = any_addr();
    let b = any_addr();
    a.sync(&b);
    let r = a.failure_rate();
    assert!(r >= 0.0 && r <= 1.0, "failure rate outside [0, 1]");
    kani::cover!(b.success_count == u32::MAX, "other side saturated");
}

#[kani::proof]
fn c17_bootstrap_addr_failure_rate_never_overflows() {
    let a = any_addr();
    let r = a.failure_rate();
    assert!(r >= 0.0 && r <= 1.0, "failure rate outside [0, 1]");
    kani::cover!(a.success_count > u32::MAX / 2 && a.failure_count > u32::MAX / 2, "sum exceeds u32");
}
