//! C17: client-side hex address helper never panics; decoding sizes around 32 bytes.
use super::*;

pub fn decode_len<const N: usize>() -> Result<Vec<u8>, hex::FromHexError> {
    if kani::any() {
        let b: [u8; N] = kani::any();
        Ok(b.to_vec())
    } else {
        Err(hex::FromHexError::OddLength)
    }
}
macro_rules! addr_len {
    ($name:ident, $stub:ident, $len:expr) => {
        pub fn $stub<T: AsRef<[u8]>>(_d: T) -> Result<Vec<u8>, hex::FromHexError> {
            decode_len::<$len>()
        }
        #[kani::proof]
        #[kani::unwind(40)]
        #[kani::stub(hex::decode, $stub)]
        #[kani::stub(alloc::fmt::format, crate::shim::fmt_format)]
        fn $name() {
            let r = str_to_addr("00");
            if $len != 32 {
                assert!(r.is_err(), "wrong decoded length accepted");
            }
            kani::cover!(r.is_err(), "rejected");
            core::mem::forget(r);
        }
    };
}
addr_len!(c17_str_to_addr_decoded_len0, a0, 0);
addr_len!(c17_str_to_addr_decoded_len31, a31, 31);
addr_len!(c17_str_to_addr_decoded_len32, a32, 32);
addr_len!(c17_str_to_addr_decoded_len33, a33, 33);
