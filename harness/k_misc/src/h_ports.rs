//! C17: port range parsing / arithmetic never panics or overflows (full u16 range).
use super::*;
use crate::shim::NodeServiceData;

#[kani::proof]
fn c17_increment_port_option_never_overflows() {
    let p: Option<u16> = kani::any();
    let r = increment_port_option(p);
    match (p, r) {
        (Some(x), Some(y)) => assert!(y as u32 == x as u32 + 1, "incremented port is not port + 1"),
        (Some(x), None) => assert!(x == u16::MAX),
        (None, r) => assert!(r.is_none()),
    }
    kani::cover!(p == Some(u16::MAX), "port 65535");
}

#[kani::proof]
#[kani::stub(alloc::fmt::format, crate::shim::fmt_format)]
fn c17_port_range_validate_never_overflows() {
    let start: u16 = kani::any();
    let end: u16 = kani::any();
    let count: u16 = kani::any();
    let range = if kani::any() { PortRange::Single(start) } else { PortRange::Range(start, end) };
    let is_range = matches!(range, PortRange::Range(..));
    let r = range.validate(count);
    if is_range && start <= end {
        let ports = end as u32 - start as u32 + 1;
        assert!(r.is_ok() == (count as u32 == ports), "validate disagrees with the number of ports in the range");
    }
    if !is_range {
        assert!(r.is_ok() == (count == 1));
    }
    kani::cover!(is_range && start == 0 && end == u16::MAX, "the full range 0-65535");
    core::mem::forget(r);
}

fn parse_len<const L: usize>() {
    let bytes: [u8; L] = kani::any();
    let mut i = 0;
    while i < L {
        kani::assume(bytes[i] < 0x80);
        i += 1;
    }
    let s = unsafe { core::str::from_utf8_unchecked(&bytes) };
    let r = PortRange::parse(s);
    if let Ok(PortRange::Range(a, b)) = &r {
        assert!(a < b, "parsed range is not increasing");
    }
    kani::cover!(r.is_ok(), "some text parses");
    kani::cover!(r.is_err(), "some text is rejected");
    core::mem::forget(r);
}
macro_rules! parse_harness {
    ($name:ident, $len:expr, $unwind:expr) => {
        #[kani::proof]
        #[kani::unwind($unwind)]
        #[kani::stub(alloc::fmt::format, crate::shim::fmt_format)]
        fn $name() {
            parse_len::<$len>();
        }
    };
}
parse_harness!(c17_port_range_parse_len1, 1, 5);
parse_harness!(c17_port_range_parse_len2, 2, 6);
parse_harness!(c17_port_range_parse_len3, 3, 7);
parse_harness!(c17_port_range_parse_len4, 4, 8);

#[kani::proof]
#[kani::unwind(5)]
#[kani::stub(alloc::fmt::format, crate::shim::fmt_format)]
fn c17_check_port_availability_exact() {
    let used: [u16; 3] = kani::any();
    let node = NodeServiceData {
        metrics_port: if kani::any() { Some(used[0]) } else { None },
        node_port: Some(used[1]),
        rpc_socket_addr: std::net::SocketAddr::new(std::net::IpAddr::V4(std::net::Ipv4Addr::LOCALHOST), used[2]),
    };
    let a: u16 = kani::any();
    let b: u16 = kani::any();
    // ranges of at most 3 ports keep the loop bound small; the arithmetic is the same for every width
    kani::assume(a <= b && b - a <= 2);
    let single = kani::any();
    let range = if single { PortRange::Single(a) } else { PortRange::Range(a, b) };
    let r = check_port_availability(&range, core::slice::from_ref(&node));
    let in_use = |p: u16| node.metrics_port == Some(p) || node.node_port == Some(p) || used[2] == p;
    let width = b - a; // 0..=2 by assumption
    let clash = if single { in_use(a) } else { in_use(a) || (width >= 1 && in_use(a + 1)) || (width >= 2 && in_use(a + 2)) };
    assert!(r.is_err() == clash, "port availability check disagrees with the recorded ports");
    kani::cover!(!single && b == u16::MAX, "range ending at 65535");
    core::mem::forget(r);
}
