//! C05: the number of identical copies a read waits for is exactly what its Quorum says.
use super::*;

#[kani::proof]
fn c05_quorum_value_exact() {
    let n: usize = kani::any();
    kani::assume(n != 0);
    let nz = NonZeroUsize::new(n).unwrap();
    assert!(get_quorum_value(&Quorum::N(nz)) == n, "Quorum::N(n) must require exactly n identical copies");
    assert!(get_quorum_value(&Quorum::One) == 1);
    assert!(get_quorum_value(&Quorum::All) == CLOSE_GROUP_SIZE);
    let m = get_quorum_value(&Quorum::Majority);
    assert!(2 * m > CLOSE_GROUP_SIZE && 2 * (m - 1) <= CLOSE_GROUP_SIZE, "majority is the least count above half of the close group");
    kani::cover!(n > CLOSE_GROUP_SIZE, "n above the close group size");
}
