//! C17: decrypt_private_key on arbitrary stored text never panics in the slicing logic.
//! hex::decode is replaced by "a vector of the given length with symbolic bytes" (library loop),
//! key derivation / AEAD are the local `ring` shim (FFI in reality): any outcome.
use super::*;

pub fn decode_len<const N: usize>() -> Result<Vec<u8>, hex::FromHexError> {
    if kani::any() {
        let b: [u8; N] = kani::any();
        Ok(b.to_vec())
    } else {
        Err(hex::FromHexError::OddLength)
    }
}
/// the decrypted bytes are not necessarily UTF-8 in this model; the real AEAD only authenticates
/// what encrypt_private_key produced from a &str, so that panic path is cut here and stated as outside
pub fn from_utf8_any(v: Vec<u8>) -> Result<String, alloc::string::FromUtf8Error> {
    Ok(String::new())
}

macro_rules! decrypt_len {
    ($name:ident, $stub:ident, $len:expr) => {
        pub fn $stub<T: AsRef<[u8]>>(_d: T) -> Result<Vec<u8>, hex::FromHexError> {
            decode_len::<$len>()
        }
        #[kani::proof]
        #[kani::unwind(70)]
        #[kani::stub(hex::decode, $stub)]
        #[kani::stub(alloc::string::String::from_utf8, from_utf8_any)]
        #[kani::stub(alloc::fmt::format, crate::shim::fmt_format)]
        fn $name() {
            let r = decrypt_private_key("00", "pw");
            if $len < 20 {
                assert!(r.is_err(), "input shorter than salt + nonce accepted");
            }
            kani::cover!(r.is_err(), "rejected");
            core::mem::forget(r);
        }
    };
}
decrypt_len!(c17_decrypt_private_key_decoded_len0, d0, 0);
decrypt_len!(c17_decrypt_private_key_decoded_len7, d7, 7);
decrypt_len!(c17_decrypt_private_key_decoded_len8, d8, 8);
decrypt_len!(c17_decrypt_private_key_decoded_len19, d19, 19);
decrypt_len!(c17_decrypt_private_key_decoded_len20, d20, 20);
decrypt_len!(c17_decrypt_private_key_decoded_len21, d21, 21);
decrypt_len!(c17_decrypt_private_key_decoded_len36, d36, 36);
decrypt_len!(c17_decrypt_private_key_decoded_len42, d42, 42);
