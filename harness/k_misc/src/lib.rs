//! Kani harnesses over items transplanted from crates whose dependency trees trip Kani
//! (color_eyre thread-locals in ant-node-manager, ring FFI in ant-cli): the item bodies are
//! copied verbatim by engine/gen_kmisc.py next to small local shims (eyre!, Result, ring).
#![allow(dead_code, unused_imports, unused_macros, unused_variables)]
extern crate alloc;

#[cfg(kani)]
pub mod shim;
#[cfg(kani)]
#[path = "gen/ports.rs"]
pub mod ports;
#[cfg(kani)]
#[path = "gen/wallet_encryption.rs"]
pub mod wallet_encryption;
#[cfg(kani)]
#[path = "gen/bootstrap_addr.rs"]
pub mod bootstrap_addr;
#[cfg(kani)]
#[path = "gen/client_addr.rs"]
pub mod client_addr;
#[cfg(kani)]
#[path = "gen/quorum.rs"]
pub mod quorum;
