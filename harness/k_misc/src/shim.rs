//! local stand-ins used by the transplanted items
pub fn fmt_format(_args: core::fmt::Arguments<'_>) -> String {
    String::new()
}

#[derive(Debug)]
pub struct Report;
pub type Result<T, E = Report> = core::result::Result<T, E>;
impl From<core::num::ParseIntError> for Report {
    fn from(_e: core::num::ParseIntError) -> Self {
        Report
    }
}
#[macro_export]
macro_rules! eyre {
    ($($t:tt)*) => {{
        if false {
            let _ = format_args!($($t)*);
        }
        $crate::shim::Report
    }};
}
#[macro_export]
macro_rules! error { ($($t:tt)*) => { if false { let _ = format_args!($($t)*); } } }
#[macro_export]
macro_rules! trace { ($($t:tt)*) => { if false { let _ = format_args!($($t)*); } } }
#[macro_export]
macro_rules! debug { ($($t:tt)*) => { if false { let _ = format_args!($($t)*); } } }

/// the three fields check_port_availability reads
pub struct NodeServiceData {
    pub metrics_port: Option<u16>,
    pub node_port: Option<u16>,
    pub rpc_socket_addr: std::net::SocketAddr,
}

/// symbolic wall clock
#[derive(Clone, Copy, Debug, PartialEq, Eq, PartialOrd, Ord)]
pub struct SystemTime(pub u64);
impl SystemTime {
    pub fn now() -> Self {
        SystemTime(kani::any())
    }
}

/// `ring` as used by decrypt_private_key: key derivation and AEAD are FFI/asm, their outcome is arbitrary
pub mod ring {
    pub mod error {
        #[derive(Debug)]
        pub struct Unspecified;
    }
    pub mod pbkdf2 {
        #[derive(Clone, Copy)]
        pub struct Algorithm;
        pub static PBKDF2_HMAC_SHA512: Algorithm = Algorithm;
        pub fn derive(_a: Algorithm, _it: core::num::NonZeroU32, _salt: &[u8], _secret: &[u8], out: &mut [u8]) {
            let k: [u8; 32] = kani::any();
            let mut i = 0;
            while i < out.len() && i < 32 {
                out[i] = k[i];
                i += 1;
            }
        }
    }
    pub mod aead {
        use super::error::Unspecified;
        pub struct Algorithm;
        pub static CHACHA20_POLY1305: Algorithm = Algorithm;
        pub struct Nonce;
        impl Nonce {
            pub fn try_assume_unique_for_key(_v: &[u8]) -> Result<Nonce, Unspecified> {
                Ok(Nonce)
            }
        }
        pub trait NonceSequence {
            fn advance(&mut self) -> Result<Nonce, Unspecified>;
        }
        pub trait BoundKey<N: NonceSequence>: Sized {
            fn new(k: UnboundKey, n: N) -> Self;
        }
        pub struct UnboundKey;
        impl UnboundKey {
            pub fn new(_a: &Algorithm, _k: &[u8]) -> Result<UnboundKey, Unspecified> {
                if kani::any() { Ok(UnboundKey) } else { Err(Unspecified) }
            }
        }
        pub struct Aad;
        impl Aad {
            pub fn from(_t: &[u8; 0]) -> Aad {
                Aad
            }
        }
        pub struct OpeningKey<N>(N);
        impl<N: NonceSequence> BoundKey<N> for OpeningKey<N> {
            fn new(_k: UnboundKey, n: N) -> Self {
                OpeningKey(n)
            }
        }
        impl<N: NonceSequence> OpeningKey<N> {
            /// authentication succeeds or fails arbitrarily; on success the plaintext is the input minus the 16-byte tag
            pub fn open_in_place<'a>(&mut self, _aad: Aad, in_out: &'a mut [u8]) -> Result<&'a mut [u8], Unspecified> {
                if in_out.len() < 16 || kani::any() {
                    return Err(Unspecified);
                }
                let n = in_out.len() - 16;
                Ok(&mut in_out[..n])
            }
        }
        pub struct SealingKey<N>(N);
    }
}
pub mod wallet_error {
    #[derive(Debug)]
    pub enum Error {
        FailedToDecryptKey(String),
        FailedToEncryptKey(String),
    }
}
