//! C11 (ii): the repository-side glue of convert_distance_to_u256.  libp2p's Distance has no
//! public accessor, so the function prints it with {:?}, strips "Distance(" and ")" and parses
//! the decimal text.  Both libraries (uint's Debug, ruint's parser) are out of CBMC's reach;
//! what is decided here is the glue: if Debug prints `Distance(<decimal digits>)`, the parser
//! receives exactly those digits with radix 10 and its value is returned unchanged.
use ant_protocol::convert_distance_to_u256;
use libp2p::kad::KBucketDistance;

static mut PRINTED: [u8; 8] = [0; 8];
static mut PRINTED_LEN: usize = 0;
static mut SEEN: [u8; 8] = [0; 8];
static mut SEEN_LEN: usize = 0;
static mut SEEN_RADIX: u64 = 0;
static mut RET: [u64; 4] = [0; 4];

/// stands for `format!("{distance:?}")`: "Distance(" + digits + ")"
pub fn fmt_debug_distance(_args: core::fmt::Arguments<'_>) -> String {
    let mut s = String::from("Distance(");
    unsafe {
        let mut i = 0;
        while i < PRINTED_LEN {
            s.push(PRINTED[i] as char);
            i += 1;
        }
    }
    s.push(')');
    s
}
pub fn record_from_str_radix<const BITS: usize, const LIMBS: usize>(src: &str, radix: u64) -> Result<ruint::Uint<BITS, LIMBS>, ruint::ParseError> {
    unsafe {
        let b = src.as_bytes();
        SEEN_LEN = b.len();
        let mut i = 0;
        while i < b.len() && i < 8 {
            SEEN[i] = b[i];
            i += 1;
        }
        SEEN_RADIX = radix;
        let mut limbs = [0u64; LIMBS];
        let mut j = 0;
        while j < LIMBS && j < 4 {
            limbs[j] = RET[j];
            j += 1;
        }
        Ok(ruint::Uint::<BITS, LIMBS>::from_limbs(limbs))
    }
}

fn glue<const L: usize>() {
    let digits: [u8; L] = kani::any();
    let mut i = 0;
    while i < L {
        kani::assume(digits[i] >= b'0' && digits[i] <= b'9');
        i += 1;
    }
    let ret: [u64; 4] = kani::any();
    unsafe {
        PRINTED_LEN = L;
        let mut i = 0;
        while i < L {
            PRINTED[i] = digits[i];
            i += 1;
        }
        RET = ret;
        SEEN_LEN = 99;
    }
    let d = KBucketDistance::default();
    let out = convert_distance_to_u256(&d);
    unsafe {
        assert!(SEEN_LEN == L, "the parser did not receive exactly the printed digits");
        let mut i = 0;
        while i < L {
            assert!(SEEN[i] == digits[i], "the parser received other characters than the printed digits");
            i += 1;
        }
        assert!(SEEN_RADIX == 10, "the digits were not parsed as decimal");
    }
    let l = out.as_limbs();
    assert!(l[0] == ret[0] && l[1] == ret[1] && l[2] == ret[2] && l[3] == ret[3], "the parsed value was not returned unchanged");
    kani::cover!(true, "glue executed");
}

macro_rules! glue_harness {
    ($name:ident, $len:expr, $unwind:expr) => {
        #[kani::proof]
        #[kani::unwind($unwind)]
        #[kani::stub(alloc::fmt::format, fmt_debug_distance)]
        #[kani::stub(ruint::Uint::from_str_radix, record_from_str_radix)]
        fn $name() {
            glue::<$len>();
        }
    };
}
glue_harness!(c11_distance_glue_len1, 1, 14);
glue_harness!(c11_distance_glue_len2, 2, 15);
glue_harness!(c11_distance_glue_len3, 3, 16);
glue_harness!(c11_distance_glue_len5, 5, 18);
