//! C12: record kind tags, header size, decoder inverse, slicing logic of the record decoders.
use ant_protocol::storage::{try_deserialize_record, try_serialize_record, Chunk, RecordHeader, RecordKind};
use libp2p::kad::{Record, RecordKey};
use serde::de::{self, Deserialize, Deserializer, Visitor};
use serde::ser::{Serialize, Serializer};

const KINDS: [(RecordKind, u8); 8] = [
    (RecordKind::ChunkWithPayment, 0),
    (RecordKind::Chunk, 1),
    (RecordKind::Transaction, 2),
    (RecordKind::Register, 3),
    (RecordKind::RegisterWithPayment, 4),
    (RecordKind::Scratchpad, 5),
    (RecordKind::ScratchpadWithPayment, 6),
    (RecordKind::TransactionWithPayment, 7),
];

// ---- a minimal Serializer that only records the u32 a RecordKind serialises to ----
struct U32Sink;
#[derive(Debug)]
struct SinkErr;
impl core::fmt::Display for SinkErr {
    fn fmt(&self, _f: &mut core::fmt::Formatter<'_>) -> core::fmt::Result {
        Ok(())
    }
}
impl std::error::Error for SinkErr {}
impl serde::ser::Error for SinkErr {
    fn custom<T: core::fmt::Display>(_m: T) -> Self {
        SinkErr
    }
}
impl serde::de::Error for SinkErr {
    fn custom<T: core::fmt::Display>(_m: T) -> Self {
        SinkErr
    }
}
macro_rules! unsupported {
    ($($name:ident($ty:ty)),*) => { $(fn $name(self, _v: $ty) -> Result<u32, SinkErr> { Err(SinkErr) })* };
}
impl Serializer for U32Sink {
    type Ok = u32;
    type Error = SinkErr;
    type SerializeSeq = serde::ser::Impossible<u32, SinkErr>;
    type SerializeTuple = serde::ser::Impossible<u32, SinkErr>;
    type SerializeTupleStruct = serde::ser::Impossible<u32, SinkErr>;
    type SerializeTupleVariant = serde::ser::Impossible<u32, SinkErr>;
    type SerializeMap = serde::ser::Impossible<u32, SinkErr>;
    type SerializeStruct = serde::ser::Impossible<u32, SinkErr>;
    type SerializeStructVariant = serde::ser::Impossible<u32, SinkErr>;
    fn serialize_u32(self, v: u32) -> Result<u32, SinkErr> {
        Ok(v)
    }
    unsupported!(serialize_bool(bool), serialize_i8(i8), serialize_i16(i16), serialize_i32(i32), serialize_i64(i64),
        serialize_u8(u8), serialize_u16(u16), serialize_u64(u64), serialize_f32(f32), serialize_f64(f64),
        serialize_char(char), serialize_str(&str), serialize_bytes(&[u8]));
    fn serialize_none(self) -> Result<u32, SinkErr> { Err(SinkErr) }
    fn serialize_some<T: ?Sized + Serialize>(self, _v: &T) -> Result<u32, SinkErr> { Err(SinkErr) }
    fn serialize_unit(self) -> Result<u32, SinkErr> { Err(SinkErr) }
    fn serialize_unit_struct(self, _n: &'static str) -> Result<u32, SinkErr> { Err(SinkErr) }
    fn serialize_unit_variant(self, _n: &'static str, _i: u32, _v: &'static str) -> Result<u32, SinkErr> { Err(SinkErr) }
    fn serialize_newtype_struct<T: ?Sized + Serialize>(self, _n: &'static str, _v: &T) -> Result<u32, SinkErr> { Err(SinkErr) }
    fn serialize_newtype_variant<T: ?Sized + Serialize>(self, _n: &'static str, _i: u32, _v: &'static str, _t: &T) -> Result<u32, SinkErr> { Err(SinkErr) }
    fn serialize_seq(self, _l: Option<usize>) -> Result<Self::SerializeSeq, SinkErr> { Err(SinkErr) }
    fn serialize_tuple(self, _l: usize) -> Result<Self::SerializeTuple, SinkErr> { Err(SinkErr) }
    fn serialize_tuple_struct(self, _n: &'static str, _l: usize) -> Result<Self::SerializeTupleStruct, SinkErr> { Err(SinkErr) }
    fn serialize_tuple_variant(self, _n: &'static str, _i: u32, _v: &'static str, _l: usize) -> Result<Self::SerializeTupleVariant, SinkErr> { Err(SinkErr) }
    fn serialize_map(self, _l: Option<usize>) -> Result<Self::SerializeMap, SinkErr> { Err(SinkErr) }
    fn serialize_struct(self, _n: &'static str, _l: usize) -> Result<Self::SerializeStruct, SinkErr> { Err(SinkErr) }
    fn serialize_struct_variant(self, _n: &'static str, _i: u32, _v: &'static str, _l: usize) -> Result<Self::SerializeStructVariant, SinkErr> { Err(SinkErr) }
}

// ---- a minimal Deserializer that yields one u32 ----
struct U32Source(u32);
impl<'de> Deserializer<'de> for U32Source {
    type Error = SinkErr;
    fn deserialize_any<V: Visitor<'de>>(self, v: V) -> Result<V::Value, SinkErr> {
        v.visit_u32(self.0)
    }
    fn deserialize_u32<V: Visitor<'de>>(self, v: V) -> Result<V::Value, SinkErr> {
        v.visit_u32(self.0)
    }
    serde::forward_to_deserialize_any! {
        bool i8 i16 i32 i64 i128 u8 u16 u64 u128 f32 f64 char str string bytes byte_buf option unit
        unit_struct newtype_struct seq tuple tuple_struct map struct enum identifier ignored_any
    }
}

/// tag table: the numeric tag of each kind is fixed (wire stability)
#[kani::proof]
#[kani::unwind(10)]
fn c12_kind_tag_table_fixed() {
    let mut i = 0;
    while i < 8 {
        let (k, tag) = KINDS[i];
        let got = k.serialize(U32Sink);
        assert!(matches!(got, Ok(t) if t == tag as u32), "numeric tag of a record kind changed");
        i += 1;
    }
    kani::cover!(i == 8, "all kinds visited");
}

/// decoder: accepts exactly the tags 0..=7 and is the inverse of the encoder
#[kani::proof]
#[kani::unwind(10)]
#[kani::stub(alloc::fmt::format, crate::stubs::fmt_format)]
fn c12_kind_decoder_inverse_of_encoder() {
    let n: u32 = kani::any();
    let r = RecordKind::deserialize(U32Source(n));
    match r {
        Ok(k) => {
            assert!(n < 8, "unknown kind tag accepted");
            let back = k.serialize(U32Sink);
            assert!(matches!(back, Ok(t) if t == n), "decode then encode changes the tag");
        }
        Err(_) => assert!(n >= 8, "known kind tag rejected"),
    }
    kani::cover!(n < 8, "a known tag");
    kani::cover!(n >= 8, "an unknown tag");
}

/// encoded header = [0x91, tag], RecordHeader::SIZE bytes, for every kind (real rmp encoder)
#[kani::proof]
#[kani::unwind(12)]
#[kani::stub(alloc::fmt::format, crate::stubs::fmt_format)]
#[kani::stub(tracing::Event::dispatch, crate::stubs::tracing_dispatch)]
#[kani::stub(tracing::callsite::DefaultCallsite::interest, crate::stubs::tracing_interest)]
#[kani::stub(tracing::__macro_support::__is_enabled, crate::stubs::tracing_is_enabled)]
fn c12_header_bytes_fixed_size_and_tag() {
    let i: usize = kani::any();
    kani::assume(i < 8);
    let (k, tag) = KINDS[i];
    let r = RecordHeader { kind: k }.try_serialize();
    match r {
        Ok(b) => {
            assert!(b.len() == RecordHeader::SIZE, "header is not SIZE bytes");
            assert!(b[0] == 0x91 && b[1] == tag, "header bytes are not [0x91, tag]");
        }
        Err(_) => panic!("header of a known kind does not serialise"),
    }
    kani::cover!(i == 7, "last kind reached");
}

fn record_of_len<const N: usize>() -> Record {
    let bytes: [u8; N] = kani::any();
    Record { key: RecordKey::new(&[1u8, 2, 3]), value: bytes.to_vec(), publisher: None, expires: None }
}

/// rmp_serde::from_slice on symbolic bytes is out of CBMC's reach (serde-derive + rmp: > 15 min for
/// 3 bytes): the slicing logic in front of it is what these harnesses decide; the decoder itself is
/// replaced by "fails" (any Ok value would need a value of the generic T)
pub fn stub_from_slice<'a, T: serde::Deserialize<'a>>(_b: &'a [u8]) -> Result<T, rmp_serde::decode::Error> {
    Err(rmp_serde::decode::Error::OutOfRange)
}

macro_rules! slicing_harness {
    ($name:ident, $len:expr) => {
        #[kani::proof]
        #[kani::unwind(8)]
        #[kani::stub(rmp_serde::from_slice, stub_from_slice)]
        #[kani::stub(alloc::fmt::format, crate::stubs::fmt_format)]
        #[kani::stub(tracing::Event::dispatch, crate::stubs::tracing_dispatch)]
        #[kani::stub(tracing::callsite::DefaultCallsite::interest, crate::stubs::tracing_interest)]
        #[kani::stub(tracing::__macro_support::__is_enabled, crate::stubs::tracing_is_enabled)]
        fn $name() {
            let r = record_of_len::<$len>();
            // none of these may panic on any content; below SIZE+1 bytes they must fail cleanly
            let h = RecordHeader::from_record(&r);
            if $len < RecordHeader::SIZE + 1 {
                assert!(h.is_err(), "truncated record yields a header");
            }
            let c = RecordHeader::is_record_of_type_chunk(&r);
            if $len < RecordHeader::SIZE + 1 {
                assert!(c.is_err());
            }
            let d: Result<Chunk, _> = try_deserialize_record(&r);
            if $len <= RecordHeader::SIZE {
                assert!(d.is_err(), "record without payload decodes");
            }
            kani::cover!(true, "reached the end without a panic");
            core::mem::forget(h);
            core::mem::forget(c);
            core::mem::forget(d);
        }
    };
}
slicing_harness!(c12_decoders_never_panic_len0, 0);
slicing_harness!(c12_decoders_never_panic_len1, 1);
slicing_harness!(c12_decoders_never_panic_len2, 2);
slicing_harness!(c12_decoders_never_panic_len3, 3);
slicing_harness!(c12_decoders_never_panic_len4, 4);
// thorough tier: longer records (the slicing logic does not depend on the length beyond SIZE + 1)
slicing_harness!(c12_decoders_never_panic_len8, 8);
slicing_harness!(c12_decoders_never_panic_sixteen_bytes, 16);
