//! C17: hex address parsers never panic.  hex::decode on long symbolic strings is a library loop;
//! the interesting decoded sizes are reached by stubbing hex::decode with "a vector of that
//! concrete length with symbolic bytes", so that the slicing/offset logic is what is decided.
use ant_registers::RegisterAddress;
use ::bls;

pub fn decode_len<const N: usize>() -> Result<Vec<u8>, hex::FromHexError> {
    if kani::any() {
        let b: [u8; N] = kani::any();
        Ok(b.to_vec())
    } else {
        Err(hex::FromHexError::OddLength)
    }
}
pub fn pk_from_bytes_nondet(_b: [u8; 48]) -> Result<bls::PublicKey, bls::Error> {
    // blst FFI: any outcome
    Err(bls::Error::InvalidBytes)
}

macro_rules! from_hex_len {
    ($name:ident, $stub:ident, $len:expr) => {
        pub fn $stub<T: AsRef<[u8]>>(_d: T) -> Result<Vec<u8>, hex::FromHexError> {
            decode_len::<$len>()
        }
        #[kani::proof]
        #[kani::unwind(100)]
        #[kani::stub(hex::decode, $stub)]
        #[kani::stub(bls::PublicKey::from_bytes, pk_from_bytes_nondet)]
        #[kani::stub(alloc::fmt::format, crate::stubs::fmt_format)]
        fn $name() {
            let r = RegisterAddress::from_hex("00");
            kani::cover!(r.is_err(), "rejected");
            if $len != 80 {
                assert!(r.is_err(), "input of the wrong decoded length accepted");
            }
            core::mem::forget(r);
        }
    };
}
from_hex_len!(c17_register_from_hex_decoded_len0, dec0, 0);
from_hex_len!(c17_register_from_hex_decoded_len1, dec1, 1);
from_hex_len!(c17_register_from_hex_decoded_len31, dec31, 31);
from_hex_len!(c17_register_from_hex_decoded_len32, dec32, 32);
from_hex_len!(c17_register_from_hex_decoded_len33, dec33, 33);
from_hex_len!(c17_register_from_hex_decoded_len79, dec79, 79);
from_hex_len!(c17_register_from_hex_decoded_len80, dec80, 80);
from_hex_len!(c17_register_from_hex_decoded_len81, dec81, 81);

/// Text of exactly the accepted length (160 bytes) that is valid UTF-8 but not ASCII: a two-byte character straddles a
/// byte offset at which a parser working on the *text* would cut it (64 = end of the name, 32, 1). The decoder's answer
/// stays symbolic (any 80 bytes, or an error); what the parser does with the text itself (split_at, slicing) is executed
/// on this concrete text. A symbolic character through the real hex::decode did not finish in 25 min.
macro_rules! from_hex_non_ascii {
    ($name:ident, $text:expr) => {
        #[kani::proof]
        #[kani::unwind(100)]
        #[kani::stub(hex::decode, dec80)]
        #[kani::stub(bls::PublicKey::from_bytes, pk_from_bytes_nondet)]
        #[kani::stub(alloc::fmt::format, crate::stubs::fmt_format)]
        fn $name() {
            let r = RegisterAddress::from_hex($text);
            kani::cover!(r.is_err(), "rejected");
            core::mem::forget(r);
        }
    };
}
from_hex_non_ascii!(c17_register_from_hex_non_ascii_across_offset_64, "000000000000000000000000000000000000000000000000000000000000000é00000000000000000000000000000000000000000000000000000000000000000000000000000000000000000000000");
from_hex_non_ascii!(c17_register_from_hex_non_ascii_across_offset_32, "0000000000000000000000000000000é0000000000000000000000000000000000000000000000000000000000000000000000000000000000000000000000000000000000000000000000000000000");
from_hex_non_ascii!(c17_register_from_hex_non_ascii_across_offset_1, "é00000000000000000000000000000000000000000000000000000000000000000000000000000000000000000000000000000000000000000000000000000000000000000000000000000000000000");
