//! Kani proof harnesses over the real ant-protocol / ant-registers crates.
#![allow(dead_code, unused_imports)]
extern crate alloc;
#[cfg(kani)]
mod stubs;
#[cfg(kani)]
mod header;
#[cfg(kani)]
mod hexaddr;
// tok.rs (C12: serde pairs through a strict token codec) is kept for reference but not compiled:
// CBMC needs > 40 GB on the Bytes-backed RecordKey (vtable dispatch) and does not finish in 20 min on a
// Bytes-free Response either (derived Deserialize of the message enums), see DESIGN I.7
// distance_glue.rs (C11 ii) is kept for reference but not compiled: 3 digits did not finish in 15 min
