//! Kani proof harnesses over the real ant-protocol / ant-registers crates.
#![allow(dead_code, unused_imports)]
extern crate alloc;
#[cfg(kani)]
mod stubs;
#[cfg(kani)]
mod header;
#[cfg(kani)]
mod hexaddr;
#[cfg(kani)]
mod tok;
// distance_glue.rs (C11 ii) is kept for reference but not compiled: 3 digits did not finish in 15 min
