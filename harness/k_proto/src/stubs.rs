//! Stubs shared by the harnesses (each harness lists the ones it uses).
//! tracing: every tracing macro reaches a lazily initialised thread-local dispatcher, which
//! crashes kani-compiler 0.68 (intrinsics.rs IntTy::I32); logging has no effect on the
//! properties, so the three entry points are stubbed to no-ops.
pub fn tracing_dispatch<'a>(_meta: &'static tracing::Metadata<'static>, _fields: &'a tracing::field::ValueSet<'_>)
where
    'a: 'a,
{
}
pub fn tracing_interest(_cs: &tracing::callsite::DefaultCallsite) -> tracing::subscriber::Interest {
    tracing::subscriber::Interest::never()
}
pub fn tracing_is_enabled(_meta: &'static tracing::Metadata<'static>, _interest: tracing::subscriber::Interest) -> bool {
    false
}
/// error paths build their messages with format!: irrelevant to the properties
pub fn fmt_format(_args: core::fmt::Arguments<'_>) -> String {
    String::new()
}
