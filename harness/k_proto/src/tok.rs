//! C12: hand-written and derived Serialize / Deserialize pairs agree at the serde data-model level.
//! The wire formats themselves (rmp for records, cbor4ii for messages) are outside what CBMC
//! finishes (Chunk through real rmp: > 25 min for a 1-byte payload), so the values go through a
//! strict token codec instead: the serializer records the data-model calls as tokens, the
//! deserializer accepts a token only through the matching deserialize_* entry point (a byte
//! string is not a sequence and vice versa, as in cbor4ii; rmp is more lenient).  What is decided:
//! for every value within the bound, deserialize(serialize(v)) == v -- i.e. the two impls of the
//! repository name the same data-model shape, in the same order, with nothing skipped.
use serde::de::{self, DeserializeSeed, IntoDeserializer, Visitor};
use serde::ser::{self, Serialize};

#[derive(Clone, Debug, PartialEq)]
pub enum Tok {
    Bool(bool),
    U(u64, u8),
    I(i64, u8),
    Str(String),
    Bytes(Vec<u8>),
    None,
    Some,
    Unit,
    Newtype,
    Seq(usize),
    Tuple(usize),
    Map(usize),
    Struct(usize),
    Variant(u32),
}

#[derive(Debug)]
pub struct TokErr;
impl core::fmt::Display for TokErr {
    fn fmt(&self, _f: &mut core::fmt::Formatter<'_>) -> core::fmt::Result {
        Ok(())
    }
}
impl std::error::Error for TokErr {}
impl ser::Error for TokErr {
    fn custom<T: core::fmt::Display>(_m: T) -> Self {
        TokErr
    }
}
impl de::Error for TokErr {
    fn custom<T: core::fmt::Display>(_m: T) -> Self {
        TokErr
    }
}

// ------------------------------------------------------------------ serializer
pub struct TokSer(pub Vec<Tok>);
pub struct Compound<'a> {
    ser: &'a mut TokSer,
    start: usize,
    count: usize,
    kind: u8, // 0 seq, 1 tuple, 2 map, 3 struct
}
impl<'a> Compound<'a> {
    fn finish(self) {
        let t = match self.kind {
            0 => Tok::Seq(self.count),
            1 => Tok::Tuple(self.count),
            2 => Tok::Map(self.count),
            _ => Tok::Struct(self.count),
        };
        self.ser.0[self.start] = t;
    }
}
impl TokSer {
    fn open(&mut self, kind: u8) -> Compound<'_> {
        let start = self.0.len();
        self.0.push(Tok::Unit);
        Compound { ser: self, start, count: 0, kind }
    }
}
impl<'a> ser::Serializer for &'a mut TokSer {
    type Ok = ();
    type Error = TokErr;
    type SerializeSeq = Compound<'a>;
    type SerializeTuple = Compound<'a>;
    type SerializeTupleStruct = Compound<'a>;
    type SerializeTupleVariant = Compound<'a>;
    type SerializeMap = Compound<'a>;
    type SerializeStruct = Compound<'a>;
    type SerializeStructVariant = Compound<'a>;
    fn serialize_bool(self, v: bool) -> Result<(), TokErr> { self.0.push(Tok::Bool(v)); Ok(()) }
    fn serialize_i8(self, v: i8) -> Result<(), TokErr> { self.0.push(Tok::I(v as i64, 8)); Ok(()) }
    fn serialize_i16(self, v: i16) -> Result<(), TokErr> { self.0.push(Tok::I(v as i64, 16)); Ok(()) }
    fn serialize_i32(self, v: i32) -> Result<(), TokErr> { self.0.push(Tok::I(v as i64, 32)); Ok(()) }
    fn serialize_i64(self, v: i64) -> Result<(), TokErr> { self.0.push(Tok::I(v, 64)); Ok(()) }
    fn serialize_u8(self, v: u8) -> Result<(), TokErr> { self.0.push(Tok::U(v as u64, 8)); Ok(()) }
    fn serialize_u16(self, v: u16) -> Result<(), TokErr> { self.0.push(Tok::U(v as u64, 16)); Ok(()) }
    fn serialize_u32(self, v: u32) -> Result<(), TokErr> { self.0.push(Tok::U(v as u64, 32)); Ok(()) }
    fn serialize_u64(self, v: u64) -> Result<(), TokErr> { self.0.push(Tok::U(v, 64)); Ok(()) }
    fn serialize_f32(self, _v: f32) -> Result<(), TokErr> { Err(TokErr) }
    fn serialize_f64(self, _v: f64) -> Result<(), TokErr> { Err(TokErr) }
    fn serialize_char(self, _v: char) -> Result<(), TokErr> { Err(TokErr) }
    fn serialize_str(self, v: &str) -> Result<(), TokErr> { self.0.push(Tok::Str(v.to_string())); Ok(()) }
    fn serialize_bytes(self, v: &[u8]) -> Result<(), TokErr> { self.0.push(Tok::Bytes(v.to_vec())); Ok(()) }
    fn serialize_none(self) -> Result<(), TokErr> { self.0.push(Tok::None); Ok(()) }
    fn serialize_some<T: ?Sized + Serialize>(self, v: &T) -> Result<(), TokErr> { self.0.push(Tok::Some); v.serialize(self) }
    fn serialize_unit(self) -> Result<(), TokErr> { self.0.push(Tok::Unit); Ok(()) }
    fn serialize_unit_struct(self, _n: &'static str) -> Result<(), TokErr> { self.0.push(Tok::Unit); Ok(()) }
    fn serialize_unit_variant(self, _n: &'static str, i: u32, _v: &'static str) -> Result<(), TokErr> { self.0.push(Tok::Variant(i)); Ok(()) }
    fn serialize_newtype_struct<T: ?Sized + Serialize>(self, _n: &'static str, v: &T) -> Result<(), TokErr> { self.0.push(Tok::Newtype); v.serialize(self) }
    fn serialize_newtype_variant<T: ?Sized + Serialize>(self, _n: &'static str, i: u32, _v: &'static str, t: &T) -> Result<(), TokErr> { self.0.push(Tok::Variant(i)); t.serialize(self) }
    fn serialize_seq(self, _l: Option<usize>) -> Result<Compound<'a>, TokErr> { Ok(self.open(0)) }
    fn serialize_tuple(self, _l: usize) -> Result<Compound<'a>, TokErr> { Ok(self.open(1)) }
    fn serialize_tuple_struct(self, _n: &'static str, _l: usize) -> Result<Compound<'a>, TokErr> { Ok(self.open(1)) }
    fn serialize_tuple_variant(self, _n: &'static str, i: u32, _v: &'static str, _l: usize) -> Result<Compound<'a>, TokErr> { self.0.push(Tok::Variant(i)); Ok(self.open(1)) }
    fn serialize_map(self, _l: Option<usize>) -> Result<Compound<'a>, TokErr> { Ok(self.open(2)) }
    fn serialize_struct(self, _n: &'static str, _l: usize) -> Result<Compound<'a>, TokErr> { Ok(self.open(3)) }
    fn serialize_struct_variant(self, _n: &'static str, i: u32, _v: &'static str, _l: usize) -> Result<Compound<'a>, TokErr> { self.0.push(Tok::Variant(i)); Ok(self.open(3)) }
    fn is_human_readable(&self) -> bool { false }
}
macro_rules! compound {
    ($tr:ident, $m:ident) => {
        impl<'a> ser::$tr for Compound<'a> {
            type Ok = ();
            type Error = TokErr;
            fn $m<T: ?Sized + Serialize>(&mut self, v: &T) -> Result<(), TokErr> { self.count += 1; v.serialize(&mut *self.ser) }
            fn end(self) -> Result<(), TokErr> { self.finish(); Ok(()) }
        }
    };
}
compound!(SerializeSeq, serialize_element);
compound!(SerializeTuple, serialize_element);
compound!(SerializeTupleStruct, serialize_field);
compound!(SerializeTupleVariant, serialize_field);
impl<'a> ser::SerializeMap for Compound<'a> {
    type Ok = ();
    type Error = TokErr;
    fn serialize_key<T: ?Sized + Serialize>(&mut self, k: &T) -> Result<(), TokErr> { self.count += 1; k.serialize(&mut *self.ser) }
    fn serialize_value<T: ?Sized + Serialize>(&mut self, v: &T) -> Result<(), TokErr> { v.serialize(&mut *self.ser) }
    fn end(self) -> Result<(), TokErr> { self.finish(); Ok(()) }
}
impl<'a> ser::SerializeStruct for Compound<'a> {
    type Ok = ();
    type Error = TokErr;
    fn serialize_field<T: ?Sized + Serialize>(&mut self, _k: &'static str, v: &T) -> Result<(), TokErr> { self.count += 1; v.serialize(&mut *self.ser) }
    fn end(self) -> Result<(), TokErr> { self.finish(); Ok(()) }
}
impl<'a> ser::SerializeStructVariant for Compound<'a> {
    type Ok = ();
    type Error = TokErr;
    fn serialize_field<T: ?Sized + Serialize>(&mut self, _k: &'static str, v: &T) -> Result<(), TokErr> { self.count += 1; v.serialize(&mut *self.ser) }
    fn end(self) -> Result<(), TokErr> { self.finish(); Ok(()) }
}

// ------------------------------------------------------------------ deserializer
pub struct TokDe<'t> {
    pub toks: &'t [Tok],
    pub pos: usize,
}
impl<'t> TokDe<'t> {
    fn next(&mut self) -> Result<&'t Tok, TokErr> {
        if self.pos >= self.toks.len() {
            return Err(TokErr);
        }
        let t = &self.toks[self.pos];
        self.pos += 1;
        Ok(t)
    }
    fn uint(&mut self, width: u8) -> Result<u64, TokErr> {
        match self.next()? {
            Tok::U(v, w) if *w == width => Ok(*v),
            _ => Err(TokErr),
        }
    }
    fn int(&mut self, width: u8) -> Result<i64, TokErr> {
        match self.next()? {
            Tok::I(v, w) if *w == width => Ok(*v),
            _ => Err(TokErr),
        }
    }
}
struct Acc<'a, 't> {
    de: &'a mut TokDe<'t>,
    left: usize,
}
impl<'de, 'a, 't> de::SeqAccess<'de> for Acc<'a, 't> {
    type Error = TokErr;
    fn next_element_seed<S: DeserializeSeed<'de>>(&mut self, seed: S) -> Result<Option<S::Value>, TokErr> {
        if self.left == 0 {
            return Ok(None);
        }
        self.left -= 1;
        seed.deserialize(&mut *self.de).map(Some)
    }
    fn size_hint(&self) -> Option<usize> {
        Some(self.left)
    }
}
impl<'de, 'a, 't> de::MapAccess<'de> for Acc<'a, 't> {
    type Error = TokErr;
    fn next_key_seed<S: DeserializeSeed<'de>>(&mut self, seed: S) -> Result<Option<S::Value>, TokErr> {
        if self.left == 0 {
            return Ok(None);
        }
        self.left -= 1;
        seed.deserialize(&mut *self.de).map(Some)
    }
    fn next_value_seed<S: DeserializeSeed<'de>>(&mut self, seed: S) -> Result<S::Value, TokErr> {
        seed.deserialize(&mut *self.de)
    }
}
struct EnumAcc<'a, 't> {
    de: &'a mut TokDe<'t>,
    idx: u32,
}
impl<'de, 'a, 't> de::EnumAccess<'de> for EnumAcc<'a, 't> {
    type Error = TokErr;
    type Variant = Self;
    fn variant_seed<S: DeserializeSeed<'de>>(self, seed: S) -> Result<(S::Value, Self), TokErr> {
        let d: de::value::U32Deserializer<TokErr> = self.idx.into_deserializer();
        let v = seed.deserialize(d)?;
        Ok((v, self))
    }
}
impl<'de, 'a, 't> de::VariantAccess<'de> for EnumAcc<'a, 't> {
    type Error = TokErr;
    fn unit_variant(self) -> Result<(), TokErr> {
        Ok(())
    }
    fn newtype_variant_seed<S: DeserializeSeed<'de>>(self, seed: S) -> Result<S::Value, TokErr> {
        seed.deserialize(&mut *self.de)
    }
    fn tuple_variant<V: Visitor<'de>>(self, len: usize, v: V) -> Result<V::Value, TokErr> {
        de::Deserializer::deserialize_tuple(&mut *self.de, len, v)
    }
    fn struct_variant<V: Visitor<'de>>(self, fields: &'static [&'static str], v: V) -> Result<V::Value, TokErr> {
        de::Deserializer::deserialize_struct(&mut *self.de, "", fields, v)
    }
}
impl<'de, 'a, 't> de::Deserializer<'de> for &'a mut TokDe<'t> {
    type Error = TokErr;
    fn deserialize_any<V: Visitor<'de>>(self, v: V) -> Result<V::Value, TokErr> {
        if self.pos >= self.toks.len() {
            return Err(TokErr);
        }
        match &self.toks[self.pos] {
            Tok::Bool(_) => self.deserialize_bool(v),
            Tok::U(_, _) => {
                let Tok::U(x, _) = self.next()? else { return Err(TokErr) };
                v.visit_u64(*x)
            }
            Tok::I(_, _) => {
                let Tok::I(x, _) = self.next()? else { return Err(TokErr) };
                v.visit_i64(*x)
            }
            Tok::Str(_) => self.deserialize_string(v),
            Tok::Bytes(_) => self.deserialize_byte_buf(v),
            Tok::None | Tok::Some => self.deserialize_option(v),
            Tok::Unit => self.deserialize_unit(v),
            Tok::Newtype => self.deserialize_newtype_struct("", v),
            Tok::Seq(_) => self.deserialize_seq(v),
            Tok::Tuple(n) => self.deserialize_tuple(*n, v),
            Tok::Map(_) => self.deserialize_map(v),
            Tok::Struct(_) => self.deserialize_struct("", &[], v),
            Tok::Variant(_) => Err(TokErr),
        }
    }
    fn deserialize_bool<V: Visitor<'de>>(self, v: V) -> Result<V::Value, TokErr> {
        match self.next()? {
            Tok::Bool(b) => v.visit_bool(*b),
            _ => Err(TokErr),
        }
    }
    fn deserialize_i8<V: Visitor<'de>>(self, v: V) -> Result<V::Value, TokErr> { let x = self.int(8)?; v.visit_i8(x as i8) }
    fn deserialize_i16<V: Visitor<'de>>(self, v: V) -> Result<V::Value, TokErr> { let x = self.int(16)?; v.visit_i16(x as i16) }
    fn deserialize_i32<V: Visitor<'de>>(self, v: V) -> Result<V::Value, TokErr> { let x = self.int(32)?; v.visit_i32(x as i32) }
    fn deserialize_i64<V: Visitor<'de>>(self, v: V) -> Result<V::Value, TokErr> { let x = self.int(64)?; v.visit_i64(x) }
    fn deserialize_u8<V: Visitor<'de>>(self, v: V) -> Result<V::Value, TokErr> { let x = self.uint(8)?; v.visit_u8(x as u8) }
    fn deserialize_u16<V: Visitor<'de>>(self, v: V) -> Result<V::Value, TokErr> { let x = self.uint(16)?; v.visit_u16(x as u16) }
    fn deserialize_u32<V: Visitor<'de>>(self, v: V) -> Result<V::Value, TokErr> { let x = self.uint(32)?; v.visit_u32(x as u32) }
    fn deserialize_u64<V: Visitor<'de>>(self, v: V) -> Result<V::Value, TokErr> { let x = self.uint(64)?; v.visit_u64(x) }
    fn deserialize_f32<V: Visitor<'de>>(self, _v: V) -> Result<V::Value, TokErr> { Err(TokErr) }
    fn deserialize_f64<V: Visitor<'de>>(self, _v: V) -> Result<V::Value, TokErr> { Err(TokErr) }
    fn deserialize_char<V: Visitor<'de>>(self, _v: V) -> Result<V::Value, TokErr> { Err(TokErr) }
    fn deserialize_str<V: Visitor<'de>>(self, v: V) -> Result<V::Value, TokErr> { self.deserialize_string(v) }
    fn deserialize_string<V: Visitor<'de>>(self, v: V) -> Result<V::Value, TokErr> {
        match self.next()? {
            Tok::Str(s) => v.visit_string(s.clone()),
            _ => Err(TokErr),
        }
    }
    fn deserialize_bytes<V: Visitor<'de>>(self, v: V) -> Result<V::Value, TokErr> { self.deserialize_byte_buf(v) }
    fn deserialize_byte_buf<V: Visitor<'de>>(self, v: V) -> Result<V::Value, TokErr> {
        match self.next()? {
            Tok::Bytes(b) => v.visit_byte_buf(b.clone()),
            _ => Err(TokErr),
        }
    }
    fn deserialize_option<V: Visitor<'de>>(self, v: V) -> Result<V::Value, TokErr> {
        match self.next()? {
            Tok::None => v.visit_none(),
            Tok::Some => v.visit_some(self),
            _ => Err(TokErr),
        }
    }
    fn deserialize_unit<V: Visitor<'de>>(self, v: V) -> Result<V::Value, TokErr> {
        match self.next()? {
            Tok::Unit => v.visit_unit(),
            _ => Err(TokErr),
        }
    }
    fn deserialize_unit_struct<V: Visitor<'de>>(self, _n: &'static str, v: V) -> Result<V::Value, TokErr> { self.deserialize_unit(v) }
    fn deserialize_newtype_struct<V: Visitor<'de>>(self, _n: &'static str, v: V) -> Result<V::Value, TokErr> {
        match self.next()? {
            Tok::Newtype => v.visit_newtype_struct(self),
            _ => Err(TokErr),
        }
    }
    fn deserialize_seq<V: Visitor<'de>>(self, v: V) -> Result<V::Value, TokErr> {
        match self.next()? {
            Tok::Seq(n) => v.visit_seq(Acc { de: self, left: *n }),
            _ => Err(TokErr),
        }
    }
    fn deserialize_tuple<V: Visitor<'de>>(self, len: usize, v: V) -> Result<V::Value, TokErr> {
        match self.next()? {
            Tok::Tuple(n) if *n == len => v.visit_seq(Acc { de: self, left: *n }),
            _ => Err(TokErr),
        }
    }
    fn deserialize_tuple_struct<V: Visitor<'de>>(self, _n: &'static str, len: usize, v: V) -> Result<V::Value, TokErr> { self.deserialize_tuple(len, v) }
    fn deserialize_map<V: Visitor<'de>>(self, v: V) -> Result<V::Value, TokErr> {
        match self.next()? {
            Tok::Map(n) => v.visit_map(Acc { de: self, left: *n }),
            _ => Err(TokErr),
        }
    }
    fn deserialize_struct<V: Visitor<'de>>(self, _n: &'static str, _f: &'static [&'static str], v: V) -> Result<V::Value, TokErr> {
        match self.next()? {
            Tok::Struct(n) => v.visit_seq(Acc { de: self, left: *n }),
            _ => Err(TokErr),
        }
    }
    fn deserialize_enum<V: Visitor<'de>>(self, _n: &'static str, _vs: &'static [&'static str], v: V) -> Result<V::Value, TokErr> {
        match self.next()? {
            Tok::Variant(i) => v.visit_enum(EnumAcc { de: self, idx: *i }),
            _ => Err(TokErr),
        }
    }
    fn deserialize_identifier<V: Visitor<'de>>(self, v: V) -> Result<V::Value, TokErr> {
        match self.next()? {
            Tok::U(x, _) => v.visit_u64(*x),
            Tok::Str(s) => v.visit_string(s.clone()),
            _ => Err(TokErr),
        }
    }
    fn deserialize_ignored_any<V: Visitor<'de>>(self, v: V) -> Result<V::Value, TokErr> { self.deserialize_any(v) }
    fn is_human_readable(&self) -> bool { false }
}

pub fn to_tokens<T: Serialize>(v: &T) -> Result<Vec<Tok>, TokErr> {
    let mut s = TokSer(Vec::new());
    v.serialize(&mut s)?;
    Ok(s.0)
}
pub fn from_tokens<T: de::DeserializeOwned>(t: &[Tok]) -> Result<T, TokErr> {
    let mut d = TokDe { toks: t, pos: 0 };
    let v = T::deserialize(&mut d)?;
    if d.pos != t.len() {
        return Err(TokErr);
    }
    Ok(v)
}

// ------------------------------------------------------------------ harnesses
use ant_protocol::messages::{QueryResponse, Response};
use ant_protocol::storage::{Chunk, RecordKind};
use ant_protocol::{error::Error as ProtocolError, NetworkAddress, PrettyPrintRecordKey};
use libp2p::kad::RecordKey;

const KEY_LEN: usize = 4;

#[kani::proof]
#[kani::unwind(8)]
fn c12_pretty_record_key_serde_pair_agrees() {
    let b: [u8; KEY_LEN] = kani::any();
    let key = RecordKey::new(&b);
    let pk = PrettyPrintRecordKey::from(&key);
    let toks = to_tokens(&pk).expect("serialises");
    let back: Result<PrettyPrintRecordKey<'static>, TokErr> = from_tokens(&toks);
    match back {
        Ok(p2) => {
            assert!(p2 == pk, "record key changes in a serialise/deserialise round trip");
            // Bytes' vtable-based drop is expensive for CBMC and not the subject
            core::mem::forget(p2);
        }
        Err(_) => assert!(false, "Serialize and Deserialize of PrettyPrintRecordKey disagree on the data-model shape"),
    }
    core::mem::forget(toks);
    core::mem::forget(key);
}

#[kani::proof]
#[kani::unwind(8)]
fn c12_record_exists_response_serde_pair_agrees() {
    // the answer a node gives to a quote request for a record it already holds
    let b: [u8; KEY_LEN] = kani::any();
    let key = RecordKey::new(&b);
    // an owned key without Bytes::clone (whose vtable dispatch CBMC does not get through): decode it
    let key_toks = to_tokens(&b.to_vec()).expect("tokens of the key bytes");
    let owned: PrettyPrintRecordKey<'static> = match from_tokens(&key_toks) {
        Ok(k) => k,
        Err(_) => {
            assert!(false, "a sequence of bytes does not decode into a record key");
            return;
        }
    };
    let resp = Response::Query(QueryResponse::GetStoreQuote {
        quote: Err(ProtocolError::RecordExists(owned)),
        peer_address: NetworkAddress::from_record_key(&key),
        storage_proofs: vec![],
    });
    let toks = to_tokens(&resp).expect("serialises");
    let back: Result<Response, TokErr> = from_tokens(&toks);
    match back {
        Ok(r2) => {
            assert!(r2 == resp, "response changes in a serialise/deserialise round trip");
            core::mem::forget(r2);
        }
        Err(_) => assert!(false, "Serialize and Deserialize of the response disagree on the data-model shape"),
    }
    core::mem::forget(toks);
    core::mem::forget(resp);
    core::mem::forget(key);
    core::mem::forget(key_toks);
}

/// messages without a Bytes-backed field: symbolic 32-byte chunk address, shape concrete per harness
macro_rules! response_roundtrip {
    ($name:ident, $resp:expr) => {
        #[kani::proof]
        #[kani::unwind(40)]
        fn $name() {
            let x: [u8; 32] = kani::any();
            let target = NetworkAddress::from_chunk_address(ant_protocol::storage::ChunkAddress::new(xor_name::XorName(x)));
            let mk: fn(NetworkAddress) -> Response = $resp;
            let resp: Response = mk(target);
            let toks = match to_tokens(&resp) {
                Ok(t) => t,
                Err(_) => {
                    assert!(false, "response does not serialise");
                    return;
                }
            };
            let back: Result<Response, TokErr> = from_tokens(&toks);
            match back {
                Ok(r2) => assert!(r2 == resp, "response changes in a serialise/deserialise round trip"),
                Err(_) => assert!(false, "Serialize and Deserialize of the response disagree on the data-model shape"),
            }
            core::mem::forget(toks);
        }
    };
}
response_roundtrip!(c12_closest_peers_response_without_peers_roundtrip, |t| Response::Query(QueryResponse::GetClosestPeers { target: t, peers: vec![], signature: None }));
