#!/bin/sh
# Builds the framework offline from files on disk: generates the transplanted sources from /repo,
# builds the symrt harness workspace (native) so that later checks only recompile what changed.
set -e
cd "$(dirname "$0")"
export CARGO_NET_OFFLINE=true
mkdir -p target/harness evidence/replays
cp /repo/Cargo.lock harness/Cargo.lock
python3 engine/setup_all.py
